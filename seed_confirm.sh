#!/bin/bash
# seed_confirm.sh <agent-dir-id> <seed-name> [cargo test extra args for the demo, e.g. --features memoization]
# Confirms a seeded change written by a sub-agent in /tmp/sa/<id>/OUT in a fresh scratch worktree of /repo:
# demo passes on the clean checkout; with the patch the pinned suite still passes and the demo fails.
# On success stores it as /verif/seeded/<seed-name>/ (patch.diff, demo.rs, notes.md, meta.json skeleton).
id=$1; name=$2; shift 2; extra="$@"
src=/tmp/sa/$id/OUT
wt=/tmp/seedconf/$name
mkdir -p /tmp/seedconf
git -C /repo worktree remove --force $wt 2>/dev/null
git -C /repo worktree add --detach $wt HEAD >/dev/null 2>&1 || { echo "worktree failed"; exit 2; }
mkdir -p $wt/tests; cp $src/demo.rs $wt/tests/demo.rs
export CARGO_TARGET_DIR=/tmp/seedconf/target_$name CARGO_NET_OFFLINE=true
(cd $wt && cargo test --offline --test demo $extra > /tmp/seedconf/$name.clean.txt 2>&1); clean=$?
git -C $wt apply $src/patch.diff || { echo "patch does not apply"; git -C /repo worktree remove --force $wt; exit 2; }
rm $wt/tests/demo.rs   # the pinned suite is run as it is, without the demonstration
(cd $wt && cargo test --workspace --no-fail-fast --offline > /tmp/seedconf/$name.suite.txt 2>&1); suite=$?
cp $src/demo.rs $wt/tests/demo.rs
(cd $wt && cargo test --offline --test demo $extra > /tmp/seedconf/$name.patched.txt 2>&1); patched=$?
lib=$(grep -E "^test result" /tmp/seedconf/$name.suite.txt | head -1)
echo "$name: demo-clean=$clean suite=$suite ($lib) demo-patched=$patched"
git -C /repo worktree remove --force $wt; rm -rf /tmp/seedconf/target_$name
if [ $clean = 0 ] && [ $suite = 0 ] && [ $patched != 0 ]; then
  d=/verif/seeded/$name; mkdir -p $d
  cp $src/patch.diff $src/demo.rs $d/; cp $src/notes.md $d/notes.md 2>/dev/null
  python3 - "$name" "$extra" <<'P'
import json,sys
name,extra=sys.argv[1],sys.argv[2]
meta={"property":name.split('-')[0],"needs_to_manifest":"see notes.md","confirmed":f"scratch worktree of /repo HEAD (seed_confirm.sh): demo (tests/demo.rs, `cargo test --offline --test demo {extra}`) passes on the clean checkout; with patch.diff applied `cargo test --workspace --no-fail-fast --offline` still passes (40 unit tests + doctests) and the demo fails","origin":"written by an independent sub-agent that saw only the property text and its own worktree","detected_by":None}
json.dump(meta,open(f"/verif/seeded/{name}/meta.json","w"),indent=1)
P
  echo "stored $d"
else
  echo "NOT CONFIRMED: see /tmp/seedconf/$name.*.txt"
fi
