#!/bin/bash
# seed_sweep.sh <seed-name>: native small-scope sweep only (no verifier) of all harness bodies against a scratch
# worktree with the seeded change applied; prints the harnesses / obligations that fail there but not on the
# unchanged tree. Maintenance helper (tells which harnesses a change affects before the verifier is run).
V=$(cd $(dirname $0) && pwd); name=$1
wt=/tmp/seedsweep/$name; mkdir -p /tmp/seedsweep
git -C /repo worktree remove --force $wt 2>/dev/null
git -C /repo worktree add --detach $wt HEAD >/dev/null 2>&1 || exit 2
git -C $wt apply $V/seeded/$name/patch.diff || { git -C /repo worktree remove --force $wt; exit 2; }
if [ ! -f /tmp/seedsweep/baseline.json ]; then
  (cd $V && VERIF_WORKERS=4 VERIF_WORK=/tmp/seedsweep/work_base python3 check.py --sweep ${SWEEP:-30000} | grep '^SWEEP-MAP' | sed 's/^SWEEP-MAP //' > /tmp/seedsweep/baseline.json)
fi
(cd $V && VERIF_SWEEP_BASELINE=/tmp/seedsweep/baseline.json VERIF_REPO=$wt VERIF_WORK=/tmp/seedsweep/work_$name VERIF_WORKERS=4 python3 check.py --sweep ${SWEEP:-30000} 2>&1 | grep -v "^SWEEP-MAP" | tail -${LINES_OUT:-12})
git -C /repo worktree remove --force $wt; rm -rf /tmp/seedsweep/work_$name
