#!/bin/bash
# dev helper: build the native replay binary against /repo (or $VERIF_REPO) and sweep harnesses
REPO=${VERIF_REPO:-/repo}
export CHUMSKY_VERIF_DIR=/verif/kani CHUMSKY_VERIF_ENTRY=/verif/kani/entry.rs RUSTFLAGS="--cfg chumsky_verif" CARGO_NET_OFFLINE=true
sed "s#@REPO@#$REPO#" /verif/replay/Cargo.toml.in > /verif/replay/Cargo.toml
(cd /verif/replay && cargo build --offline --target-dir /verif/.work/replay-target 2>&1 | grep -E "^(error|warning: unused)|-->|^\s+\|" | head -${ERRLINES:-60})
B=/verif/.work/replay-target/debug/verif-replay
case "$1" in
  sweep) shift; for h in "$@"; do $B sweep $h ${MAX:-200000} 1; done;;
  list) $B list;;
  *) $B "$@";;
esac
