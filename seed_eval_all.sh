#!/bin/bash
# seed_eval_all.sh [pattern]: evaluate every stored seeded change (seeded/<name>/) with seed_eval.sh, one after
# the other; summary lines go to seeded/EVAL.log. Meant for `vp run --with-repo -- ./seed_eval_all.sh`.
V=$(cd $(dirname $0) && pwd)
pat=${1:-.}
mkdir -p /tmp/seedrun
for d in $V/seeded/*/; do
  n=$(basename $d)
  [ -f $d/patch.diff ] || continue
  echo $n | grep -Eq "$pat" || continue
  s=$(date +%s)
  $V/seed_eval.sh $n quick 2>&1 | tail -9 > /tmp/seedrun/last_$n.txt
  echo "### $n $(( $(date +%s)-s ))s" >> $V/seeded/EVAL.log
  cat /tmp/seedrun/last_$n.txt >> $V/seeded/EVAL.log
done
echo "### done" >> $V/seeded/EVAL.log
