#!/bin/bash
# run_all.sh [tier]: every claimed property's check in turn (maintenance helper; prints exit codes)
tier=${1:-quick}
cd /verif
for p in $(python3 -c "import json;print(' '.join(c['property_id'] for c in json.load(open('MANIFEST.json'))['checks']))"); do
  s=$(date +%s)
  python3 check.py $p --tier $tier > .work/out_$p.txt 2> .work/err_$p.txt
  echo "$p exit=$? $(( $(date +%s)-s ))s $(tail -1 .work/out_$p.txt)"
done
