#!/bin/bash
# seed_run.sh <name> <Cxx> [tier]
# Runs the property's check against a scratch worktree of /repo with the seeded change applied
# (VERIF_REPO), with its own work directory, so that /repo itself is never touched by self-tests.
# (seed_run_inplace.sh does the same by applying the patch to /repo and undoing it afterwards.)
name=$1; pid=$2; tier=${3:-quick}
wt=/tmp/seedrun/$name
mkdir -p /tmp/seedrun
git -C /repo worktree remove --force $wt 2>/dev/null
git -C /repo worktree add --detach $wt HEAD >/dev/null 2>&1 || exit 2
git -C $wt apply /verif/seeded/$name/patch.diff || exit 2
(cd /verif && VERIF_REPO=$wt VERIF_WORK=/tmp/seedrun/work VERIF_WORKERS=${VERIF_WORKERS:-8} python3 check.py $pid --tier $tier > /verif/seeded/$name/check_$pid.txt 2>/verif/seeded/$name/check_$pid.err; echo "exit=$?" >> /verif/seeded/$name/check_$pid.txt)
git -C /repo worktree remove --force $wt
grep -E "VIOLATION|obligation .* fails now|exit=|UNDECIDED" /verif/seeded/$name/check_$pid.txt | head -12
