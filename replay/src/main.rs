// Native replay / small-scope driver: the harness bodies live in /verif/kani and are compiled into
// the real chumsky crate through its cfg hook; this binary only calls their command line.
fn main() {
    std::process::exit(chumsky::input::verif::native::main_native());
}
