"""Mechanical extraction of functions from /repo for Verus.

For each target (file, container header regex, list of fn names) the text of the type definition and of
each listed fn is cut out of the real source by brace matching. The only edits made to the cut text:
  * attributes (`#[...]`) and doc comments (`///`) on the extracted items are dropped;
  * the visibility qualifiers `pub` / `pub(crate)` are dropped;
  * the return type `-> T` of a fn with a contract is rewritten `-> (r: T)` (Verus' named result), and
    the contract text (requires/ensures) is spliced between the signature and the body.
  * a by-value `mut self` receiver (unsupported by this Verus) is desugared the way rustc itself reads it:
    the receiver becomes `self`, the body is prefixed with `let mut self_ = self;` and every `self` token
    in the body is renamed `self_` (desugar_mut_self; applied only when the signature says `mut self`).
Bodies are otherwise byte-for-byte those of the repository. A target whose anchor is not found is a lost
anchor.
"""
import re


class LostAnchor(Exception):
    pass


def match_brace(src, i):
    """src[i] == '{' -> index just past the matching '}' (skips strings, chars, comments)."""
    assert src[i] == "{"
    depth = 0
    n = len(src)
    while i < n:
        c = src[i]
        if src.startswith("//", i):
            i = src.index("\n", i)
            continue
        if src.startswith("/*", i):
            i = src.index("*/", i) + 2
            continue
        if c == '"':
            i += 1
            while src[i] != '"':
                i += 2 if src[i] == "\\" else 1
            i += 1
            continue
        if c == "'":
            # char literal or lifetime
            m = re.match(r"'(\\.|[^\\'])'", src[i:i + 4])
            if m:
                i += m.end()
                continue
        if c == "{":
            depth += 1
        elif c == "}":
            depth -= 1
            if depth == 0:
                return i + 1
        i += 1
    raise LostAnchor("unbalanced braces")


def strip_attrs_docs_vis(text):
    out = []
    for line in text.split("\n"):
        s = line.strip()
        if s.startswith("///") or s.startswith("//!") or s.startswith("#["):
            continue
        line = re.sub(r"\bpub(\([a-z]+\))?\s+", "", line)
        out.append(line)
    return "\n".join(out)


def cut_item(src, header_re):
    m = re.search(header_re, src, re.M)
    if not m:
        raise LostAnchor(f"anchor not found: {header_re}")
    b = src.index("{", m.start())
    e = match_brace(src, b)
    line_no = src.count("\n", 0, m.start()) + 1
    return src[m.start():e], line_no, m.start()


def cut_fn(impl_text, name, raw=False):
    if raw:
        m = re.search(r"^[ \t]*(?:pub(?:\([a-z]+\))?\s+)?" + name + r"\b", impl_text, re.M)
    else:
        m = re.search(r"^[ \t]*(?:pub(?:\([a-z]+\))?\s+)?(?:const\s+)?fn\s+" + re.escape(name) + r"\b", impl_text, re.M)
    if not m:
        raise LostAnchor(f"fn {name} not found")
    b = impl_text.index("{", m.start())
    e = match_brace(impl_text, b)
    return impl_text[m.start():b], impl_text[b:e], impl_text.count("\n", 0, m.start())


def desugar_mut_self(sig, body):
    """`fn f(mut self, ..) {B}` -> `fn f(self, ..) { let mut self_ = self; B[self := self_] }`"""
    if not re.search(r"\(\s*mut\s+self\b", sig):
        return sig, body
    sig = re.sub(r"\(\s*mut\s+self\b", "(self", sig, count=1)
    inner = re.sub(r"\bself\b", "self_", body[1:])
    return sig, "{\n        let mut self_ = self;" + inner


def with_contract(sig, body, contract):
    sig = strip_attrs_docs_vis(sig).rstrip()
    sig, body = desugar_mut_self(sig, body)
    if contract:
        m = re.search(r"->\s*(.+?)\s*(where\b.*)?$", sig, re.S)
        if m:
            sig = sig[:m.start()] + "-> (r: " + m.group(1).strip() + ")" + ((" " + m.group(2)) if m.group(2) else "")
        return sig + "\n" + contract.rstrip() + "\n" + body
    return sig + " " + body
