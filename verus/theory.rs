// Theory lemmas over the contracts (DESIGN 3.5). Spec-level restatements of contracts that are proved
// of the real code by the Kani harnesses; these lemmas lift the per-function contracts to the
// statements of the properties. Checked by Verus on every run.
use vstd::prelude::*;
use vstd::set_lib::*;
verus! {

// ---------------------------------------------------------------- L-max (C06): priority merge is a max-fold
pub struct Alt { pub pos: nat, pub ids: Set<int> }

/// The contract of add_alt / add_alt_err (proved of the real code: C06/add_alt_err.* and C06/add_alt.*).
pub open spec fn offer(alt: Option<Alt>, at: nat, id: int) -> Option<Alt> {
    match alt {
        None => Some(Alt { pos: at, ids: set![id] }),
        Some(a) => if a.pos > at { Some(a) }
                   else if a.pos == at { Some(Alt { pos: a.pos, ids: a.ids.insert(id) }) }
                   else { Some(Alt { pos: at, ids: set![id] }) },
    }
}
pub open spec fn fold_offers(alt: Option<Alt>, offs: Seq<(nat, int)>) -> Option<Alt>
    decreases offs.len()
{
    if offs.len() == 0 { alt } else { fold_offers(offer(alt, offs[0].0, offs[0].1), offs.drop_first()) }
}
pub open spec fn max_pos(offs: Seq<(nat, int)>) -> nat
    decreases offs.len()
{
    if offs.len() == 0 { 0 } else {
        let m = max_pos(offs.drop_first());
        if offs[0].0 >= m { offs[0].0 } else { m }
    }
}
pub open spec fn ids_at(offs: Seq<(nat, int)>, p: nat) -> Set<int>
    decreases offs.len()
{
    if offs.len() == 0 { Set::empty() } else {
        let rest = ids_at(offs.drop_first(), p);
        if offs[0].0 == p { rest.insert(offs[0].1) } else { rest }
    }
}

/// Folding the priority rule over any non-empty sequence of offers, starting from a pending error `a`,
/// ends at the furthest position among `a` and the offers, never earlier.
pub proof fn lemma_fold_is_max(a: Alt, offs: Seq<(nat, int)>)
    ensures
        fold_offers(Some(a), offs).is_some(),
        fold_offers(Some(a), offs).unwrap().pos == (if a.pos >= max_pos(offs) { a.pos } else { max_pos(offs) }),
        fold_offers(Some(a), offs).unwrap().pos >= a.pos,
    decreases offs.len()
{
    if offs.len() == 0 {
    } else {
        let a2 = offer(Some(a), offs[0].0, offs[0].1).unwrap();
        lemma_fold_is_max(a2, offs.drop_first());
    }
}
/// Starting from no pending error, a non-empty sequence of offers always leaves one (I1), at the
/// furthest offered position.
pub proof fn lemma_fold_from_none(offs: Seq<(nat, int)>)
    requires offs.len() > 0,
    ensures
        fold_offers(None, offs).is_some(),
        fold_offers(None, offs).unwrap().pos == max_pos(offs),
{
    let a = Alt { pos: offs[0].0, ids: set![offs[0].1] };
    lemma_fold_is_max(a, offs.drop_first());
}
/// The identities merged into the result are exactly those offered at the winning position, when the
/// winning position is reached by an offer (merged expectations, C06).
pub proof fn lemma_fold_ids(a: Alt, offs: Seq<(nat, int)>)
    ensures
        ({
            let r = fold_offers(Some(a), offs).unwrap();
            if a.pos == r.pos { r.ids == a.ids.union(ids_at(offs, r.pos)) }
            else { r.ids == ids_at(offs, r.pos) }
        }),
    decreases offs.len()
{
    lemma_fold_is_max(a, offs);
    if offs.len() == 0 {
        assert(a.ids.union(Set::<int>::empty()) =~= a.ids);
    } else {
        let a2 = offer(Some(a), offs[0].0, offs[0].1).unwrap();
        let rest = offs.drop_first();
        lemma_fold_ids(a2, rest);
        lemma_fold_is_max(a2, rest);
        let r = fold_offers(Some(a2), rest).unwrap();
        if a.pos == r.pos {
            if offs[0].0 == a.pos {
                assert(a2.ids.union(ids_at(rest, r.pos)) =~= a.ids.union(ids_at(offs, r.pos)));
            } else {
                assert(a2.ids.union(ids_at(rest, r.pos)) =~= a.ids.union(ids_at(offs, r.pos)));
            }
        } else {
            if a2.pos == r.pos {
                assert(a2.ids.union(ids_at(rest, r.pos)) =~= ids_at(offs, r.pos));
            } else {
                assert(ids_at(rest, r.pos) =~= ids_at(offs, r.pos));
            }
        }
    }
}

// ---------------------------------------------------------------- L-trunc (C05)
/// rewind(save()) = truncate to the saved length: whatever was appended since is removed and nothing
/// older is touched; truncating to a length not below the current one is the identity.
pub proof fn lemma_truncate_after_append<T>(s: Seq<T>, e: Seq<T>)
    ensures (s + e).take(s.len() as int) =~= s,
{
}
pub proof fn lemma_kept_then_abandoned<T>(s: Seq<T>, kept: Seq<T>, abandoned: Seq<T>)
    ensures ((s + kept) + abandoned).take((s + kept).len() as int) =~= s + kept,
{
}

// ---------------------------------------------------------------- L-pow (C09)
pub open spec fn lp(is_left: bool, x: nat) -> nat { if is_left { 2 * x } else { 2 * x + 1 } }
pub open spec fn rp(is_left: bool, x: nat) -> nat { if is_left { 2 * x + 1 } else { 2 * x } }

/// With the step contract "an infix operator is attempted iff its left power >= the required minimum,
/// and its right operand is parsed with minimum = its right power":
pub proof fn lemma_powers(x: nat, y: nat, a: bool, b: bool)
    ensures
        // equal power, left-associative: the same operator is NOT captured by the right operand (groups left)
        lp(true, x) < rp(true, x),
        // equal power, right-associative: it IS captured (groups right)
        lp(false, x) >= rp(false, x),
        // a strictly tighter operator is always captured by the operand of a looser one
        x < y ==> lp(b, y) >= rp(a, x),
        // a strictly looser operator is never captured by the operand of a tighter one
        x < y ==> lp(a, x) < rp(b, y),
        // prefix operand power 2x admits exactly the operators of power >= x; postfix admission 2x+1
        lp(a, y) >= 2 * x <==> y >= x,
        2 * y + 1 >= 2 * x <==> y >= x,
{
}

// ---------------------------------------------------------------- L-count (C02)
/// Outcome of one step of Repeated::next at a given count, as its (proved) contract states it:
/// the item either matches or not; the step yields, stops or fails.
pub enum Step { Yield, Stop, Fail }
pub open spec fn step(count: nat, item_ok: bool, at_least: nat, at_most: nat) -> Step {
    if count >= at_most { Step::Stop }
    else if item_ok { Step::Yield }
    else if count >= at_least { Step::Stop }
    else { Step::Fail }
}
/// The driver contract: iterate `step` until it stops or fails. `items[i]` = whether the i-th item
/// attempt (from the position reached after i accepted items) matches.
pub open spec fn drive(count: nat, items: Seq<bool>, at_least: nat, at_most: nat) -> (bool, nat)
    decreases items.len()
{
    if items.len() == 0 { (count >= at_least, count) }   // input exhausted: the next attempt fails
    else {
        match step(count, items[0], at_least, at_most) {
            Step::Yield => drive(count + 1, items.drop_first(), at_least, at_most),
            Step::Stop => (true, count),
            Step::Fail => (false, count),
        }
    }
}
/// Number of leading matching items, capped.
pub open spec fn leading(items: Seq<bool>, cap: nat) -> nat
    decreases items.len()
{
    if items.len() == 0 || cap == 0 || !items[0] { 0 } else { 1 + leading(items.drop_first(), (cap - 1) as nat) }
}
/// Greedy, possessive, bounded: the repetition takes the leading matching items up to at_most and
/// succeeds iff that count lies within [at_least, at_most] (for a non-empty range).
pub proof fn lemma_count(count: nat, items: Seq<bool>, at_least: nat, at_most: nat)
    requires at_least <= at_most, count <= at_most,
    ensures
        ({
            let n = count + leading(items, (at_most - count) as nat);
            let (ok, c) = drive(count, items, at_least, at_most);
            c == n && n <= at_most && ok == (at_least <= n)
        }),
    decreases items.len()
{
    if items.len() == 0 {
    } else if count >= at_most {
    } else if items[0] {
        lemma_count(count + 1, items.drop_first(), at_least, at_most);
    } else {
    }
}

// ---------------------------------------------------------------- L-memo (C11): nesting of memoized attempts is bounded
/// Index of a memo key (position, parser number) in the finite key space [0, (len+1)*p).
pub open spec fn key_index(k: (nat, nat), p: nat) -> int { (k.0 * p + k.1) as int }

proof fn lemma_key_index_injective(a: (nat, nat), b: (nat, nat), p: nat)
    requires a.1 < p, b.1 < p, key_index(a, p) == key_index(b, p),
    ensures a == b,
{
    if a.0 < b.0 {
        assert((a.0 + 1) * p <= b.0 * p) by (nonlinear_arith) requires a.0 + 1 <= b.0;
        assert((a.0 + 1) * p == a.0 * p + p) by (nonlinear_arith);
    } else if b.0 < a.0 {
        assert((b.0 + 1) * p <= a.0 * p) by (nonlinear_arith) requires b.0 + 1 <= a.0;
        assert((b.0 + 1) * p == b.0 * p + p) by (nonlinear_arith);
    }
}
proof fn lemma_key_index_range(a: (nat, nat), len: nat, p: nat)
    requires a.0 <= len, a.1 < p,
    ensures 0 <= key_index(a, p) < (len + 1) * p,
{
    assert(a.0 * p <= len * p) by (nonlinear_arith) requires a.0 <= len;
    assert((len + 1) * p == len * p + p) by (nonlinear_arith);
    assert(0 <= a.0 * p) by (nonlinear_arith);
}
/// The chain of memoized attempts that are active (nested) at some moment of a parse: one key
/// (position, parser) per attempt. By the contract proved of `Memoized::go` (C11/memoized.reentry-*:
/// a key that is in progress is not entered again, the attempt fails at once without running the
/// parser), the keys of a chain are pairwise distinct; positions are cursor positions (<= len) and the
/// grammar contains p memoized parsers. Hence the chain - and with it the recursion through memoized
/// steps, in particular a left-recursive step - is never deeper than (len + 1) * p.
pub proof fn lemma_memo_nesting_bounded(chain: Seq<(nat, nat)>, len: nat, p: nat)
    requires
        forall|i: int| 0 <= i < chain.len() ==> chain[i].0 <= len && chain[i].1 < p,
        forall|i: int, j: int| 0 <= i < j < chain.len() ==> chain[i] != chain[j],
    ensures chain.len() <= (len + 1) * p,
{
    let idx = Seq::new(chain.len(), |i: int| key_index(chain[i], p));
    assert forall|i: int, j: int| 0 <= i < idx.len() && 0 <= j < idx.len() && i != j implies idx[i] != idx[j] by {
        if idx[i] == idx[j] {
            lemma_key_index_injective(chain[i], chain[j], p);
            if i < j { assert(chain[i] != chain[j]); } else { assert(chain[j] != chain[i]); }
        }
    }
    assert(idx.no_duplicates());
    idx.unique_seq_to_set();
    let n = ((len + 1) * p) as int;
    assert(0 <= n) by (nonlinear_arith) requires n == (len + 1) * p;
    lemma_int_range(0, n);
    assert forall|x: int| #[trigger] idx.to_set().contains(x) implies set_int_range(0, n).contains(x) by {
        let i = choose|i: int| 0 <= i < idx.len() && idx[i] == x;
        lemma_key_index_range(chain[i], len, p);
    }
    lemma_len_subset(idx.to_set(), set_int_range(0, n));
}

} // verus!
fn main() {}
