#!/bin/bash
# refactor_eval.sh <rfN> <harness-regex> <Cxx> [<Cxx>...]: a behaviour-preserving refactoring
# (seeded/refactors/<rfN>.diff) must not make any check raise an alarm. Scratch worktree with the patch; native
# sweep of every harness body (any obligation failing there that does not fail on the unchanged tree is an
# alarm); then the named properties' registered checks restricted to the harnesses on the refactored function.
V=$(cd $(dirname $0) && pwd); rf=$1; only=$2; shift 2
base=${VP_RUN_REPO:-/repo}
wt=/tmp/rfrun/$rf; mkdir -p /tmp/rfrun
git -C $base worktree remove --force $wt 2>/dev/null
git -C $base worktree add --detach $wt HEAD >/dev/null 2>&1 || exit 2
git -C $wt apply $V/seeded/refactors/$rf.diff || { echo "patch does not apply"; git -C $base worktree remove --force $wt; exit 2; }
if [ ! -s /tmp/rfrun/baseline.json ]; then
  (cd $V && VERIF_REPO=$base VERIF_WORKERS=6 VERIF_WORK=/tmp/rfrun/work_base python3 check.py --sweep 30000 | grep '^SWEEP-MAP' | sed 's/^SWEEP-MAP //' > /tmp/rfrun/baseline.json)
fi
echo "== $rf: native sweep"
(cd $V && VERIF_SWEEP_BASELINE=/tmp/rfrun/baseline.json VERIF_REPO=$wt VERIF_WORK=/tmp/rfrun/work_$rf VERIF_WORKERS=6 python3 check.py --sweep 30000 2>&1 | grep "^SWEEP-HITS")
for pid in "$@"; do
  (cd $V && VERIF_ONLY="$only" VERIF_REPO=$wt VERIF_WORK=/tmp/rfrun/work_$rf VERIF_WORKERS=${VERIF_WORKERS:-6} python3 check.py $pid --tier quick 2>/dev/null | grep -E "VIOLATION|UNDECIDED|^C[0-9][0-9] \[" | cut -c1-260; echo "$rf $pid exit=${PIPESTATUS[0]}")
done
git -C $base worktree remove --force $wt; rm -rf /tmp/rfrun/work_$rf
