"""Trusted base, assumptions and the mechanical scans reported in every evidence file."""
import os
import re
import subprocess

TRUSTED_BASE = [
    "rustc type/borrow checking of safe code (drop-once, &self immutability)",
    "Kani 0.68 translation of MIR to goto, CBMC 6.11 + CaDiCaL",
    "Kani's models of alloc (Vec, Box, Rc) and of __rust_alloc/__rust_realloc",
    "Verus 0.2026.09.13 + Z3 for extracted functions and theory lemmas",
    "parametricity of safe generic Rust without specialization (one free instance decides the generic code; size_of::<E::Error>()==0 and Mode are instantiated separately)",
]

ASSUMPTIONS = [
    "children of a combinator satisfy the parser contract K (DESIGN 3.2); it is what the stub may do, and it is itself asserted of every combinator proved",
    "emitted-error list: the proof checks lengths at every observation point; that equal lengths imply equal contents rests on the list being used as a stack (only push / truncate / extend-from-inner / in-place label), which is re-checked by a source scan on every run and by the native small-scope sweep which compares ids",
    "usize is a 64-bit vector in Kani (machine arithmetic is not treated as mathematical)",
    "features not built under Kani: stacker, memoization, regex, lexical-numbers, serde, bytes, sync, nightly",
    "tuple arities > 3 of Choice/Group/pratt tables are covered by macro uniformity only",
]

PER_PROPERTY = {}
UNCOVERED = {}
EXPLAIN = {}


def scan(verif):
    """Mechanical scan of the harness / Verus sources for unchecked assumptions."""
    out = []
    pats = [r"ch::assume\(", r"kani::assume\(", r"\badmit\(", r"external_body", r"assume_specification", r"kani::stub", r"assume\(false\)"]
    for root in ("kani", "verus"):
        d = os.path.join(verif, root)
        if not os.path.isdir(d):
            continue
        for fn in sorted(os.listdir(d)):
            p = os.path.join(d, fn)
            if not os.path.isfile(p):
                continue
            for i, line in enumerate(open(p, errors="replace"), 1):
                for pat in pats:
                    if re.search(pat, line) and not line.strip().startswith("//"):
                        out.append(f"{root}/{fn}:{i}: {line.strip()[:140]}")
    return out


def stack_discipline(repo):
    """Every use of the emitted-error list in the library, so a new kind of mutation is noticed."""
    allowed = ("truncate(", "push(", "len()", "extend(", "drain(", "get_mut(", "into_iter()", "Vec::new()", "secondary: Vec", "secondary_errors_since", ".secondary\n", ".secondary")
    uses = []
    for fn in sorted(os.listdir(os.path.join(repo, "src"))):
        if not fn.endswith(".rs"):
            continue
        for i, line in enumerate(open(os.path.join(repo, "src", fn), errors="replace"), 1):
            if "secondary" in line and not line.strip().startswith("//") and "verif" not in line:
                uses.append(f"src/{fn}:{i}: {line.strip()[:120]}")
    return uses


def functions_under_contract(pid, names, reg, repo):
    import contracts_map
    return contracts_map.functions(pid, names, repo)
