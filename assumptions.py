"""Trusted base, assumptions and the mechanical scans reported in every evidence file."""
import os
import re
import subprocess

TRUSTED_BASE = [
    "rustc type/borrow checking of safe code (drop-once, &self immutability)",
    "Kani 0.68 translation of MIR to goto, CBMC 6.11 + CaDiCaL",
    "Kani's models of alloc (Vec, Box, Rc) and of __rust_alloc/__rust_realloc",
    "Verus 0.2026.09.13 + Z3 for extracted functions and theory lemmas",
    "parametricity of safe generic Rust without specialization (one free instance decides the generic code; size_of::<E::Error>()==0 and Mode are instantiated separately)",
]

ASSUMPTIONS = [
    "children of a combinator satisfy the parser contract K (DESIGN 3.2); it is what the stub may do, and it is itself asserted of every combinator proved",
    "emitted-error list: the proof checks lengths at every observation point; that equal lengths imply equal contents rests on the list being used as a stack (only push / truncate / extend-from-inner / in-place label), which is re-checked by a source scan on every run and by the native small-scope sweep which compares ids",
    "usize is a 64-bit vector in Kani (machine arithmetic is not treated as mathematical)",
    "features not built under Kani: stacker, regex, lexical-numbers, serde, bytes, sync, nightly (memoization is built for the Memoized harnesses only, with hashbrown::HashMap replaced by the finite-map contract kani/hashmodel.rs through a cfg-guarded hook: an assumed, unverified contract on the dependency)",
    "tuple arities > 4 of Choice/Group (and > 2 of pratt tables) are covered by macro uniformity only",
]

PER_PROPERTY = {}
UNCOVERED = {}
EXPLAIN = {}


def scan(verif):
    """Mechanical scan of the harness / Verus sources for unchecked assumptions."""
    out = []
    pats = [r"ch::assume\(", r"kani::assume\(", r"\badmit\(", r"external_body", r"assume_specification", r"kani::stub", r"assume\(false\)"]
    for root in ("kani", "verus", "."):
        d = os.path.join(verif, root)
        if not os.path.isdir(d):
            continue
        for fn in sorted(os.listdir(d)):
            if root == "." and fn != "verus_targets.py":
                continue
            p = os.path.join(d, fn)
            if not os.path.isfile(p):
                continue
            for i, line in enumerate(open(p, errors="replace"), 1):
                for pat in pats:
                    if re.search(pat, line) and not line.strip().startswith("//"):
                        out.append(f"{root}/{fn}:{i}: {line.strip()[:140]}")
    return out


def stack_discipline(repo):
    """Every use of the emitted-error list in the library, so a new kind of mutation is noticed."""
    allowed = ("truncate(", "push(", "len()", "extend(", "drain(", "get_mut(", "into_iter()", "Vec::new()", "secondary: Vec", "secondary_errors_since", ".secondary\n", ".secondary")
    uses = []
    for fn in sorted(os.listdir(os.path.join(repo, "src"))):
        if not fn.endswith(".rs"):
            continue
        for i, line in enumerate(open(os.path.join(repo, "src", fn), errors="replace"), 1):
            if "secondary" in line and not line.strip().startswith("//") and "verif" not in line:
                uses.append(f"src/{fn}:{i}: {line.strip()[:120]}")
    return uses


def functions_under_contract(pid, names, reg, repo):
    import contracts_map
    return contracts_map.functions(pid, names, repo)

# ----------------------------------------------------------------------------------------------
# C13 frame scan: every interior-mutability construct in the library, compared with the reviewed list.
# A parser can carry state from one parse to the next only through such a site.
# ----------------------------------------------------------------------------------------------
FRAME_PATTERNS = r"\bCell<|\bRefCell\b|\bUnsafeCell\b|static\s+mut\b|\bAtomic\w+|\bOnceCell\b|thread_local!|\bMutex\b|\bRwLock\b|\bOnceLock\b|lazy_static"
FRAME_REVIEWED = {
    # file -> substrings of reviewed lines (what they are)
    "src/container.rs": ["Container<T> for Cell<C>", "Container<T> for RefCell<C>", "RefCell::new(C::with_capacity(n))", "Rc<UnsafeCell<C::Uninit>>", "Rc::new(UnsafeCell::new(C::uninit()))",
                         "Arc<UnsafeCell<C::Uninit>>", "Arc::new(UnsafeCell::new(C::uninit()))"],  # output containers (values), not parser state; Rc/Arc impls are commented out
    "src/lib.rs": ["cell::{Cell, RefCell},"],  # import
    "src/recursive.rs": ["struct OnceCell<T>(core::cell::Cell<Option<T>>);", "impl<T> OnceCell<T> {", "inner: OnceCell<Box<DynParser<", "inner: OnceCell::new(),"],  # set once at definition time (proved: C12)
}


def frame_scan(repo):
    """-> (sites, unreviewed)"""
    sites, unreviewed = [], []
    src = os.path.join(repo, "src")
    for fn in sorted(os.listdir(src)):
        if not fn.endswith(".rs"):
            continue
        in_hook = False
        for i, line in enumerate(open(os.path.join(src, fn), errors="replace"), 1):
            s = line.strip()
            if s.startswith("//"):
                continue
            if re.search(FRAME_PATTERNS, line):
                rel = f"src/{fn}"
                sites.append(f"{rel}:{i}: {s[:100]}")
                if not any(k in line for k in FRAME_REVIEWED.get(rel, [])):
                    unreviewed.append(f"{rel}:{i}: {s[:100]}")
    return sites, unreviewed


EXPLAIN.update({
    "C01": "obligations = tagged contract assertions (C01/...) of the harnesses listed, each a loop-free proof over symbolic input length, entry state and child behaviour; bounded harnesses listed separately",
    "C20": "obligations = 'failure leaves a pending error' postconditions (C20/...) plus one 'every automatic Kani check passes' obligation per harness (panics, overflow, bounds, pointer validity in the code under contract)",
})
UNCOVERED.update({
    "C01": ["tuple arities > 4 of choice/group (same macro body; 1-4 are under contract)", "any_ref / select_ref (need a borrowing input; same code shape as any / select)", "todo() (panics by design)", "unwrapped() (panics by design on None/Err)"],
    "C02": ["drivers are bounded (<= 2 items): the unbounded statement is carried by the step contracts + lemma_count", "the real Repeated/configure + collect::<Vec> composition is checked bounded (<= 2 items) with bounds of the full usize range", "IntoIter / Flatten iterable adaptors", "String containers (String::push is std)"],
    "C03": ["lazy(): bounded to 2 trailing tokens", "the identity of the primary error at top level is compared natively only (reading the error buffer is out of CBMC's reach)"],
    "C04": ["to_slice/ignored etc. are compared with their value-building form through a common specification, not by a two-run product"],
    "C05": ["error list contents compared by length under CBMC", "recovery inside folds: by composition only"],
    "C06": ["Rich::merge: which span the merged error keeps is decided by Verus on the extracted function (span of the pending error, as Cheap/Simple) with RichReason::flat_merge as an assumed callee without contract; what flat_merge itself computes (union of the expected lists, user error preserved) is NOT under contract: its list loop exhausts CBMC's memory (> 24 GB in every case split tried; tried again in round 3 with a user error on one side, > 15 min) and its iterator code is outside Verus; its twin on the add_alt path, Rich::merge_expected_found, is under contract (bounded: one expectation per side)", "the real error types are proved with a bounded number of expectations per error (<= 2; <= 1 per side for merges), spans / found tokens / pattern kinds fully symbolic; Vec growth (realloc) is not exercised (lists are built with spare capacity)", "filter(): found token of a rejection is not asserted (the library reports none)"],
    "C07": ["IterInput/MappedInput: the empty-match clause with a token ahead is a recorded finding (two entries); at the end of input it holds and is asserted", "Stream/IoInput slices n/a", "&[T] input functions under Verus: vstd's assumed specifications of std (`<[T]>::get`, `<[T]>::len`, range indexing of slices, the blanket `Into` through `From`) are trusted; `len <= usize::MAX` (type invariant of a slice) and the documented safety contract of SliceInput::slice / slice_from (cursors produced by this input, start <= end <= len) are preconditions; pointer identity of the returned sub-slice (zero-copy) follows from the type `&'src [T]` borrowed from the cache and is asserted on concrete buffers by the Kani twin (slice_input_b4)", "unwrapped(): its constructor stores Location::caller() unconditionally (caller_location: unsupported by Kani), tried in round 5"],
    "C08": ["nested_delimiters is a grammar built from combinators that are each under contract (recursive, delimited_by, or, repeated, and_is, none_of, map_with); the composition itself (real recursion through Rc/dyn plus two nested loops) is beyond the solver's time limit and is NOT checked: a change confined to how nested_delimiters assembles them is not detected", "skip strategies bounded to 2 rounds"],
    "C09": ["pratt_go loop: bounded (against real infix operators: 2 operands; against the stub operator table: 2 operator applications, operands nest one level deep; stubs emit nothing)", "tuple tables of arity > 2", "prefix/postfix tables beyond the single-operator steps"],
    "C10": ["&[T] under Verus: vstd's assumed specifications of std slice operations are trusted", "IoInput (BufReader/Seek)", "Graphemes (unicode-segmentation)", "Stream 512-item batch boundary", "bytes feature"],
    "C11": ["hashbrown::HashMap is replaced by an assumed finite-map contract (kani/hashmodel.rs, <= 3 bindings); the real table is exercised only natively", "distinct zero-sized memoized parsers at the same address share a memo key: recorded finding", "termination of a whole left-recursive parse: only the re-entry contract and the nesting bound (Verus lemma) are proved", "memoization presupposes that re-running a parser at a position gives the same outcome (context- and state-dependent parsers are outside the property's 'grammars')"],
    "C12": ["stack depth / stacker::maybe_grow (external)", "mutual recursion beyond one level is by induction over the forwarding contract", "define()'s panic message formatting (entered through the hook under Kani; the real define() is run natively)"],
    "C13": ["thread clause (no threads in Kani)", "Send/Sync are type-level facts"],
    "C14": ["regex()", "unicode::ident / keyword beyond ASCII (unicode-ident tables)", "Graphemes", "text parsers bounded to 3 remaining tokens"],
    "C15": ["configure() inside recursion/choices: by induction (context is a plain reference parameter)"],
    "C16": ["inner emitted errors are re-homed at the outer cursor (documented TODO in the library); their spans are not asserted"],
    "C17": ["Rich::label_with / in_context: bounded to <= 2 expectations / 2 contexts", "as_context's decoration of already emitted errors (loop) is only exercised with <= 2 errors"],
    "C18": ["with_state: the invariant is deliberately not maintained for the outer inspector across with_state (by design of with_state)", "nested_in shares the inspector between outer and inner input (by design)"],
    "C19": ["N > 3", "Rc/Arc ContainerExactly impls are commented out in the library"],
    "C20": ["termination / time complexity / stack depth are not decided", "debug_assert progress checks compiled out in driver harnesses", "memoized(): panic-freedom under the assumed map contract only"],
})
