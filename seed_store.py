#!/usr/bin/env python3
"""seed_store.py <Cxx> <k> <name> "<needs>"  - store a confirmed seeded change under /verif/seeded/<name>/"""
import json, os, shutil, sys
pid, k, name, needs = sys.argv[1:5]
src = f"/tmp/seed/out_{pid}"
dst = f"/verif/seeded/{name}"
os.makedirs(dst, exist_ok=True)
shutil.copy(f"{src}/patch{k}.diff", f"{dst}/patch.diff")
shutil.copy(f"{src}/demo{k}.rs", f"{dst}/demo.rs")
if os.path.exists(f"{src}/notes{k}.md"):
    shutil.copy(f"{src}/notes{k}.md", f"{dst}/notes.md")
meta = {"property": pid, "needs_to_manifest": needs,
        "confirmed": "scratch worktree of /repo HEAD: demo (tests/demo.rs) passes on the clean checkout; with patch.diff applied `cargo test --lib --offline` still reports 40 passed and the demo fails (/tmp/seed/confirm.sh: fresh worktree; `cargo test --offline --test demo` clean -> ok; patch applied -> `cargo test --workspace --no-fail-fast --offline` 40 unit + 82 doc tests ok; demo -> FAILED)",
        "origin": "written by an independent sub-agent that saw only the property text and its own worktree",
        "detected_by": None}
json.dump(meta, open(f"{dst}/meta.json", "w"), indent=1)
print("stored", dst)
