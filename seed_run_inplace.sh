#!/bin/bash
# seed_run_inplace.sh <name> <Cxx> [tier]: apply the seeded change to /repo, run the property's check, undo.
name=$1; pid=$2; tier=${3:-quick}
git -C /repo status --short | grep -q . && { echo "repo dirty"; exit 2; }
git -C /repo apply /verif/seeded/$name/patch.diff || exit 2
(cd /verif && python3 check.py $pid --tier $tier > /verif/seeded/$name/check_$pid.txt 2>/verif/seeded/$name/check_$pid.err; echo "exit=$?" >> /verif/seeded/$name/check_$pid.txt)
git -C /repo checkout -- .
git -C /verif checkout -- evidence/$pid.json 2>/dev/null
grep -E "VIOLATION|obligation .* fails now|exit=|UNDECIDED" /verif/seeded/$name/check_$pid.txt | head -12
