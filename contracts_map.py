"""Which real functions each harness puts under contract (file:line resolved on every run)."""
import os
import re

C = "src/combinator.rs"
P = "src/primitive.rs"
I = "src/input.rs"
# harness-name prefix -> list of (file, regex anchoring the function)
MAP = {
    "or_": [(C, r"for Or<A, B>"), (P, r"impl_choice_for_tuple")],
    "then_ignore": [(C, r"for ThenIgnore<A, B, OB, E>")],
    "then_": [(C, r"Parser<'src, I, \(OA, OB\), E> for Then<")],
    "ignore_then": [(C, r"for IgnoreThen<A, B, OA, E>")],
    "or_not": [(C, r"Parser<'src, I, Option<O>, E> for OrNot<A>")],
    "ornot_next": [(C, r"IterParser<'src, I, O, E> for OrNot<A>")],
    "not_": [(C, r"Parser<'src, I, \(\), E> for Not<A, OA>")],
    "and_is": [(C, r"for AndIs<A, B, OB>")],
    "rewind": [(C, r"for Rewind<A>")],
    "any_": [(P, r"Parser<'src, I, I::Token, E> for Any<I, E>")],
    "just_": [(P, r"fn go_cfg<M: Mode>")],
    "one_of": [(P, r"for OneOf<T, I, E>")],
    "none_of": [(P, r"for NoneOf<T, I, E>")],
    "select_": [(P, r"Parser<'src, I, O, E> for Select<F, I, O, E>")],
    "end_": [(P, r"Parser<'src, I, \(\), E> for End<I, E>")],
    "empty_": [(P, r"Parser<'src, I, \(\), E> for Empty<I, E>")],
    "custom_": [(P, r"Parser<'src, I, O, E> for Custom<F, I, O, E>")],
    "group2": [(P, r"macro_rules! impl_group_for_tuple")], "group3": [(P, r"macro_rules! impl_group_for_tuple")],
    "group_array": [(P, r"Parser<'src, I, \[O; N\], E> for Group<\[P; N\]>"), ("src/private.rs", r"fn array_assume_init")],
    "choice3": [(P, r"macro_rules! impl_choice_for_tuple")], "choice4": [(P, r"macro_rules! impl_choice_for_tuple")], "group4": [(P, r"macro_rules! impl_group_for_tuple")],
    "pratt_loop": [("src/pratt.rs", r"fn pratt_go<M: Mode, I, O, E>")], "repeated_collect_vec": [(C, r"for Collect<A, O, C>"), (C, r"IterParser<'src, I, O, E> for Repeated<A, O, I, E>")],
    "configure_collect_vec": [(C, r"for Collect<A, O, C>"), (C, r"IterParser<'src, I, O, E> for IterConfigure<A, F, O>"), (C, r"fn next_cfg<M: Mode>")],
    "memo_table_with_ctx": [(I, r"pub\(crate\) fn with_ctx")], "memo_table_nested_in": [(C, r"for NestedIn<A, B, J, F, O, E>"), (I, r"pub\(crate\) fn with_input")], "choice1": [(P, r"macro_rules! impl_choice_for_tuple")],
    "choice_array": [(P, r"for Choice<\[A; N\]>"), (P, r"for Choice<&\[A\]>")], "choice_slice": [(P, r"for Choice<&\[A\]>")],
    "choice_vec": [(P, r"for Choice<Vec<A>>")], "choice_empty": [(P, r"for Choice<&\[A\]>")],
    "delimited_by": [(C, r"for DelimitedBy<A, B, C, OB, OC>")], "padded_by": [(C, r"for PaddedBy<A, B, OB>")],
    "map_emit": [(C, r"Parser<'src, I, O, E> for Map<A, OA, F>")], "map_check": [(C, r"Parser<'src, I, O, E> for Map<A, OA, F>")],
    "map_next": [(C, r"IterParser<'src, I, O, E> for Map<A, OA, F>")],
    "to_emit": [(C, r"for To<A, OA, O>")], "to_check": [(C, r"for To<A, OA, O>")],
    "ignored": [(C, r"for Ignored<A, OA>")], "to_span": [(C, r"for ToSpan<A, OA>")], "to_slice": [(C, r"for ToSlice<A, O>")],
    "map_with": [(C, r"Parser<'src, I, O, E> for MapWith<A, OA, F>"), (I, r"pub\(crate\) fn new<'parse>")],
    "validate": [(C, r"for Validate<A, OA, F>")], "filter": [(C, r"for Filter<A, F>")],
    "try_map_with": [(C, r"for TryMapWith<A, OA, F>")], "try_map": [(C, r"for TryMap<A, OA, F>")],
    "repeated_next": [(C, r"IterParser<'src, I, O, E> for Repeated<A, O, I, E>"), (C, r"fn next_cfg<M: Mode>")],
    "repeated_go": [(C, r"Parser<'src, I, \(\), E> for Repeated<A, OA, I, E>")],
    "sepby_next": [(C, r"IterParser<'src, I, OA, E> for SeparatedBy<")], "sepby_go": [(C, r"Parser<'src, I, \(\), E> for SeparatedBy<")],
    "enumerate": [(C, r"for Enumerate<A, O>")],
    "collect_exactly": [(C, r"for CollectExactly<A, O, C>"), ("src/container.rs", r"ContainerExactly<T> for \[T; N\]"), ("src/container.rs", r"ContainerExactly<T> for Box<C>")],
    "collect_": [(C, r"for Collect<A, O, C>")], "count_": [(C, r"for Collect<A, O, C>")],
    "foldl_with": [(C, r"for FoldlWith<F, A, B, OB, E>")], "foldl_": [(C, r"for Foldl<F, A, B, OB, E>")], "foldr_": [(C, r"for Foldr<F, A, B, OA, E>")],
    "parse_with_state": [("src/lib.rs", r"fn parse_with_state")], "check_with_state": [("src/lib.rs", r"fn check_with_state")],
    "lazy_": [("src/lib.rs", r"fn lazy\(")], "parse_result": [("src/lib.rs", r"impl<T, E> ParseResult<T, E>")],
    "save_rewind": [(I, r"pub fn save\("), (I, r"pub fn rewind\("), (I, r"pub\(crate\) fn rewind_input\(")],
    "emit_one": [(I, r"pub\(crate\) fn emit\(")], "add_alt_err": [(I, r"pub\(crate\) fn add_alt_err")], "add_alt_": [(I, r"pub\(crate\) fn add_alt<")],
    "next_": [(I, r"pub\(crate\) fn next_inner"), (I, r"pub\(crate\) fn next_maybe_inner")], "peek_": [(I, r"pub fn peek\("), (I, r"pub fn peek_maybe\(")],
    "skip_while": [(I, r"pub\(crate\) fn skip_while")], "inputref_": [(I, r"pub fn parse<O, P"), (I, r"pub fn check<O, P")],
    "recover_via_parser": [("src/recovery.rs", r"for RecoverWith<A, S>"), ("src/recovery.rs", r"for ViaParser<A>")],
    "skip_until": [("src/recovery.rs", r"for SkipUntil<S, U, F>")], "skip_retry": [("src/recovery.rs", r"for SkipThenRetryUntil<S, U>")],
    "infix_step": [("src/pratt.rs", r"for Infix<'src, A, F, O, Op, I, E>")], "prefix_step": [("src/pratt.rs", r"for Prefix<'src, A, F, O, Op, I, E>")],
    "postfix_step": [("src/pratt.rs", r"for Postfix<'src, A, F, O, Op, I, E>")],
    "infix_table": [("src/pratt.rs", r"macro_rules! impl_operator_for_tuple"), ("src/pratt.rs", r"for Vec<Op>"), ("src/pratt.rs", r"Operator<'src, I, O, E> for Boxed<")],
    "pratt_chain": [("src/pratt.rs", r"fn pratt_go<M: Mode, I, O, E>")],
    "wrap_ref": [("src/blanket.rs", r"Parser<'src, I, O, E> for &T")], "wrap_box": [("src/lib.rs", r"for ::alloc::boxed::Box<T>")],
    "wrap_rc": [("src/lib.rs", r"for ::alloc::rc::Rc<T>")], "wrap_arc": [("src/lib.rs", r"for ::alloc::sync::Arc<T>")],
    "wrap_boxed": [("src/lib.rs", r"Parser<'src, I, O, E> for Boxed<'src, '_, I, O, E>")], "wrap_either": [("src/either.rs", r"for Either<L, R>")],
    "memoized": [(C, r"Parser<'src, I, O, E> for Memoized<A>")],
    "cache_": [("src/cache.rs", r"pub fn get<'src>")],
    "recursive_indirect": [("src/recursive.rs", r"for Recursive<Indirect<"), ("src/recursive.rs", r"pub fn set\(")], "recursive_define": [("src/recursive.rs", r"pub fn set\("), ("src/recursive.rs", r"pub fn define<")],
    "recursive_direct": [("src/recursive.rs", r"for Recursive<Direct<"), ("src/recursive.rs", r"pub fn recursive<")], "recursive_unroll": [("src/recursive.rs", r"pub fn recursive<")],
    "ext_": [("src/extension.rs", r"for Ext<P>")],
    "with_ctx": [(C, r"for WithCtx<A, Ctx>"), (I, r"pub\(crate\) fn with_ctx")], "ctx_nearest": [(C, r"for WithCtx<A, Ctx>")],
    "ignore_with_ctx": [(C, r"for IgnoreWithCtx<A, B, OA, I, extra")], "then_with_ctx": [(C, r"for ThenWithCtx<A, B, OA, I, extra")],
    "map_ctx": [(P, r"for MapCtx<A, EI, F, E>")], "configure_just": [(C, r"for Configure<A, F>"), (P, r"fn go_cfg<M: Mode>")],
    "configure_repeated": [(C, r"IterParser<'src, I, O, E> for IterConfigure<A, F, O>"), (C, r"fn next_cfg<M: Mode>")], "try_configure": [(C, r"IterParser<'src, I, O, E> for TryIterConfigure<A, F, O>")],
    "nested_in": [(C, r"for NestedIn<A, B, J, F, O, E>"), (I, r"pub\(crate\) fn with_input")],
    "labelled": [("src/label.rs", r"for Labelled<A, L>")], "map_err": [(C, r"for MapErrWithState<A, F>"), (C, r"for MapErr<A, F>")],
    "with_state": [(C, r"for WithState<A, State>"), (I, r"pub\(crate\) fn with_state")],
    "slice_input": [(I, r"Input<'src> for &'src \[T\] \{")], "array_input": [(I, r"Input<'src> for &'src \[T; N\]")],
    "str_": [(I, r"Input<'src> for &'src str"), (I, r"SliceInput<'src> for &'src str")],
    "mapped_input": [(I, r"Input<'src> for MappedInput<T, S, I, F>")], "iter_input": [("src/stream.rs", r"for IterInput<I, S>")],
    "stream_input": [("src/stream.rs", r"ValueInput<'a> for Stream<I>")], "stream_boxed_input": [("src/stream.rs", r"ValueInput<'a> for Stream<I>"), ("src/stream.rs", r"pub fn boxed<'a>")],
    "one_of_range": [(P, r"for OneOf<T, I, E>"), ("src/container.rs", r"Seq<'p, T> for Range<T>"), ("src/container.rs", r"Seq<'p, T> for core::ops::RangeInclusive<T>"), ("src/container.rs", r"Seq<'p, T> for RangeFrom<T>")],
    "none_of_range": [(P, r"for NoneOf<T, I, E>"), ("src/container.rs", r"Seq<'p, T> for Range<T>"), ("src/container.rs", r"Seq<'p, T> for core::ops::RangeInclusive<T>"), ("src/container.rs", r"Seq<'p, T> for RangeFrom<T>")],
    "one_of_single": [(P, r"for OneOf<T, I, E>"), ("src/container.rs", r"impl<'p, T: Clone> Seq<'p, T> for T \{")],
    "none_of_single": [(P, r"for NoneOf<T, I, E>"), ("src/container.rs", r"impl<'p, T: Clone> Seq<'p, T> for T \{")],
    "one_of_slice_set": [(P, r"for OneOf<T, I, E>"), ("src/container.rs", r"impl<'p, T> Seq<'p, T> for &'p \[T\] \{")],
    "none_of_slice_set": [(P, r"for NoneOf<T, I, E>"), ("src/container.rs", r"impl<'p, T> Seq<'p, T> for &'p \[T\] \{")],
    "span_simple": [("src/span.rs", r"impl<T: Clone, C: Clone> Span for SimpleSpan<T, C>"), ("src/span.rs", r"fn to_end\(&self\)"), ("src/span.rs", r"pub fn into_range\(self\)"), ("src/span.rs", r"impl<T> From<Range<T>> for SimpleSpan<T>"), ("src/span.rs", r"impl<T> From<SimpleSpan<T, \(\)>> for Range<T>")],
    "span_union": [("src/span.rs", r"fn union\(&self, other: Self\)")],
    "span_range_tuple": [("src/span.rs", r"impl<C: Clone, S: Span<Context = \(\)>> Span for \(C, S\)"), ("src/span.rs", r"impl<T: Clone> Span for Range<T>")],
    "iter_input_empty_match": [("src/stream.rs", r"for IterInput<I, S>")], "span_wrappers": [(I, r"for MappedSpan<S, I, F>"), (I, r"Input<'src> for WithContext<S, I>")],
    "err_expected_found": [("src/error.rs", r"fn expected_found<E: IntoIterator<Item = L>>"), ("src/error.rs", r"LabelError<'a, I, L> for Rich<'a, I::Token, I::Span>"), ("src/error.rs", r"LabelError<'a, I, L> for Simple<'a, I::Token, I::Span>"), ("src/error.rs", r"LabelError<'a, I, L> for Cheap<I::Span>")],
    "err_rich_merge_expected_found": [("src/error.rs", r"fn merge_expected_found<E: IntoIterator<Item = L>>")],
    "err_rich_replace": [("src/error.rs", r"fn replace_expected_found<E: IntoIterator<Item = L>>")],
    "err_plain": [("src/error.rs", r"Error<'a, I> for Simple<'a, I::Token, I::Span>"), ("src/error.rs", r"Error<'a, I> for Cheap<I::Span>"), ("src/error.rs", r"LabelError<'a, I, L> for EmptyErr"), ("src/label.rs", r"fn merge_expected_found<E: IntoIterator<Item = L>>"), ("src/label.rs", r"fn replace_expected_found<E: IntoIterator<Item = L>>")],
    "err_rich_label": [("src/error.rs", r"fn label_with\(&mut self, label: L\)")], "err_rich_context": [("src/error.rs", r"fn in_context\(&mut self, label: L, span: I::Span\)")],
    "char_classes": [("src/text.rs", r"impl Char for char"), ("src/text.rs", r"impl Char for u8")], "ident_classes": [("src/text.rs", r"fn is_ident_start")],
    "newline_": [("src/text.rs", r"pub fn newline<")], "int_": [("src/text.rs", r"pub fn int<")], "digits_": [("src/text.rs", r"pub fn digits<")],
    "whitespace_": [("src/text.rs", r"pub fn whitespace<")], "inline_whitespace": [("src/text.rs", r"pub fn inline_whitespace<")],
    "ascii_ident": [("src/text.rs", r"pub fn ident<")], "ascii_keyword": [("src/text.rs", r"pub fn keyword<")], "padded_": [("src/text.rs", r"for Padded<A>")],
}
COMMON = [(I, r"pub fn save\("), (I, r"pub fn rewind\("), (I, r"pub\(crate\) fn emit\("), (I, r"pub\(crate\) fn add_alt_err"), (I, r"pub\(crate\) fn add_alt<")]


def locate(repo, file, pat):
    try:
        for i, line in enumerate(open(os.path.join(repo, file), errors="replace"), 1):
            if re.search(pat, line):
                return f"{file}:{i}"
    except OSError:
        pass
    return f"{file}:<anchor not found: {pat}>"


def functions(pid, names, repo):
    out = []
    seen = set()
    for n in names:
        best = None
        for k in MAP:
            if n.startswith(k) and (best is None or len(k) > len(best)):
                best = k
        for file, pat in (MAP.get(best, []) if best else []) + COMMON:
            loc = locate(repo, file, pat)
            if loc not in seen:
                seen.add(loc)
                out.append(loc)
    return out


def dispatch_sites(repo):
    """Hand-written dynamic-dispatch entry points: every definition of `fn go_emit` / `fn go_check` in the
    library other than the generated forwarders of the `go_extra!` macro and the trait's declarations.
    -> list of (file, line, enclosing impl header)"""
    sites = []
    src = os.path.join(repo, "src")
    for fn in sorted(os.listdir(src)):
        if not fn.endswith(".rs"):
            continue
        lines = open(os.path.join(src, fn), errors="replace").read().split("\n")
        in_macro = False
        for i, line in enumerate(lines):
            if re.match(r"\s*macro_rules!\s+go_extra", line):
                in_macro = True
            elif in_macro and re.match(r"^}", line):
                in_macro = False
            m = re.match(r"\s*(pub\s+)?fn (go_emit|go_check)\s*(<[^>]*>)?\(", line)
            if not m or in_macro or line.strip().startswith("//"):
                continue
            # a declaration without a body (the trait's) ends in `;`
            j = i
            decl = line
            while "{" not in decl and ";" not in decl and j + 1 < len(lines):
                j += 1
                decl += lines[j]
            if decl.strip().endswith(";") or (";" in decl and "{" not in decl):
                continue
            k = i
            while k > 0 and not re.match(r"\s*(unsafe\s+)?impl\b", lines[k]):
                k -= 1
            header = lines[k].strip()
            h = k
            while "{" not in header and h + 1 < len(lines) and h < k + 12:
                h += 1
                header += " " + lines[h].strip()
            sites.append((f"src/{fn}", i + 1, header))
    return sites


def harness_prefixes_for(file, header):
    """harness-name prefixes whose code under contract is the impl with this header"""
    out = []
    for k, anchors in MAP.items():
        for f, pat in anchors:
            if f == file and re.search(pat, header):
                out.append(k)
    return out
