"""Which real functions each harness puts under contract (file:line resolved on every run)."""
import os
import re

# harness-name prefix -> list of (file, regex anchoring the function)
MAP = {
    "or_": [("src/combinator.rs", r"for Or<A, B>"), ("src/primitive.rs", r"impl_choice_for_tuple")],
    "then_ignore": [("src/combinator.rs", r"for ThenIgnore<A, B, OB, E>")],
    "then_": [("src/combinator.rs", r"impl<'src, I, E, A, B, OA, OB> Parser<'src, I, \(OA, OB\), E> for Then<")],
    "ignore_then": [("src/combinator.rs", r"for IgnoreThen<A, B, OA, E>")],
    "or_not": [("src/combinator.rs", r"Parser<'src, I, Option<O>, E> for OrNot<A>")],
    "not_": [("src/combinator.rs", r"Parser<'src, I, \(\), E> for Not<A, OA>")],
    "and_is": [("src/combinator.rs", r"for AndIs<A, B, OB>")],
    "rewind": [("src/combinator.rs", r"for Rewind<A>")],
}
COMMON = [("src/input.rs", r"pub fn save\("), ("src/input.rs", r"pub fn rewind\("), ("src/input.rs", r"pub\(crate\) fn emit\("),
          ("src/input.rs", r"pub\(crate\) fn add_alt_err"), ("src/input.rs", r"pub\(crate\) fn add_alt<")]


def locate(repo, file, pat):
    try:
        for i, line in enumerate(open(os.path.join(repo, file), errors="replace"), 1):
            if re.search(pat, line):
                return f"{file}:{i}"
    except OSError:
        pass
    return f"{file}:<anchor not found: {pat}>"


def functions(pid, names, repo):
    out = []
    seen = set()
    for n in names:
        best = None
        for k in MAP:
            if n.startswith(k) and (best is None or len(k) > len(best)):
                best = k
        for file, pat in (MAP.get(best, []) if best else []) + COMMON:
            loc = locate(repo, file, pat)
            if loc not in seen:
                seen.add(loc)
                out.append(loc)
    return out
