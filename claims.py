_A = "Assumes the child contract (itself asserted of every combinator proved), parametricity of safe generic code, Kani/CBMC and Verus/Z3 soundness; harnesses whose name ends in _b<k> are bounded stand-ins, listed separately and not counted as proved."
CLAIMS.update({
    "C01": (
        "Every primitive matcher and every sequencing/choice/option/lookahead/output-transforming combinator's real go body is proved (Kani/CBMC, loop-free harness, symbolic input of unbounded length, symbolic entry state, every behaviour the parser contract allows its children) to satisfy the PEG equation of that node; whole-grammar PEG semantics follows by structural induction over the contracts. Right level because the property quantifies over all grammars x all inputs, which only a modular proof covers.",
        _A + " Slice/Vec choice and multi-token just are bounded.",
        "DESIGN 3, 4/C01",
    ),
    "C02": (
        "Container::push / with_capacity for Vec<T> verified by Verus on the extracted impl (push appends exactly the item, vectors of every length). The loop-free step functions Repeated::next/next_cfg and SeparatedBy::next (and the adaptor steps enumerate/map/or_not) are proved for all bounds, counts, flags, child behaviours and input lengths against the statement's case table; the count induction from step contracts to whole repetitions is a Verus lemma; the drivers that merely iterate a step (collect, count, foldl, foldr, Repeated::go, SeparatedBy::go, collect_exactly) are bounded stand-ins (2 items, 3 in the thorough tier); the composition of the real Repeated / configure() with the real collect into a real Vec is checked bounded with bounds of the full usize range (sizing hints and set-up exchanged besides `next`, no panic however large the bound).",
        _A + " Items consume input (K-prog).",
        "DESIGN 3.7, 4/C02",
    ),
    "C03": (
        "parse_with_state / check_with_state are proved with a contract stub as grammar on an input of unbounded length: output iff the grammar matched the entire input, no output implies >= 1 error, errors = emitted ones (+ primary); end() rejects any remaining token; the ParseResult accessors are verified by Verus on text extracted from the repository (into_result is Ok iff no errors and an output) and by Kani; lazy() is bounded (<= 2 trailing tokens).",
        _A,
        "DESIGN 4/C03",
    ),
    "C04": (
        "Every combinator harness is instantiated at Check mode and must satisfy the same mode-free specification (call pattern and entry states of children, acceptance, position, emitted errors, pending error, inspector) as at Emit; children are mode-independent by contract, so check() and parse() coincide node by node and hence for every grammar. Value-eliding forms are proved against the same specification as their value-building forms; Ext's separate check path is proved equivalent to its parse path.",
        _A + " A two-run comparison in one harness is not used (too expensive): both runs are compared against one specification.",
        "DESIGN 4/C04",
    ),
    "C05": (
        "Emission-framing postcondition proved on every backtracking site covered: on success the emitted-error list is exactly the entry list followed by the emissions of the children whose result is kept, in call order; abandoned children leave nothing; on failure the entry list is a prefix; save/rewind/rewind_input/emit proved directly. Same for the inspector checkpoint.",
        _A + " Under CBMC the list is compared by length at every observation point (contents in the native small-scope sweep); equal lengths imply equal contents because the list is only pushed to / truncated (source scan in evidence).",
        "DESIGN 4/C05",
    ),
    "C06": (
        "add_alt / add_alt_err are proved to implement the priority rule (later replaces, equal merges, earlier kept; zero-sized fast paths leave an error); every combinator proved leaves as pending error exactly the furthest of the offers made inside it and the one pending at entry, merged at equal positions (Offers specification); error construction sites report a truthful span and found token; the max-fold lemmas (Verus) lift this to whole grammars.",
        _A + " The library's own error types are under contract too (Rich/Simple/Cheap/EmptyErr: expected_found, merge_expected_found = union / user error preserved, replace_expected_found, same span for all three; bounded number of expectations per error); Rich::merge is verified by Verus on the extracted function to keep the span of the pending error (flat_merge an assumed callee; what flat_merge lists is not proved: it exhausts CBMC's memory and is outside Verus). filter()'s found token and collect_exactly's silent failure are recorded findings.",
        "DESIGN 4/C06",
    ),
    "C07": (
        "Capture sites (map_with, to_span, to_slice, try_map, try_map_with, validate, select, foldl_with, pratt folds) are proved to hand user code exactly span/slice(entry cursor .. cursor after the child); per input kind span/slice are proved to cover exactly the cursor range, slices being sub-slices of the caller's buffer (&[T] and &[T; N]: next_maybe / span / span_from / slice / slice_from / full_slice and the Range->SimpleSpan conversion verified by Verus on the extracted functions for every length; &str on char boundaries: bounded buffers of 4), mapped/iter inputs spanning first-token start to last-token end; the Span algebra of src/span.rs (new/start/end/context for SimpleSpan, Range and (C, S); to_end; union keeps start <= end and encompasses both; into_range; both From conversions) proved over the whole usize domain.",
        _A + " The empty-match clause on token-spanned inputs (Input::map, IterInput) fails when a token is still ahead and is a recorded finding (two entries); at the end of input it holds and is asserted separately.",
        "DESIGN 4/C07",
    ),
    "C08": (
        "recover_with + via_parser proved completely against the three cases of the statement (transparent on success; strategy output plus exactly one extra error = the error pending when the parser failed; both fail => fails with that error having consumed and emitted nothing); skip_until / skip_then_retry_until are bounded (2 rounds).",
        _A + " nested_delimiters is a composition of proved combinators and is not separately checked.",
        "DESIGN 4/C08",
    ),
    "C09": (
        "left_power/right_power verified by Verus on extracted text (2x, 2x+1 / 2x+1, 2x, no overflow); the operator steps Infix/Prefix/Postfix::do_parse_* proved completely (attempted iff power >= minimum, operand parsed at the operator's right power, unusable operator rewound and left operand handed back, fold in token order with the whole sub-expression's span); tuple and boxed tables proved, Vec table bounded; the driver loop pratt_go is under a contract of its own against a contract stub as operator table (an expression starts with a prefix attempt else an atom; every operand is parsed, and every postfix/infix attempt inside it made, at exactly the power the enclosing operator asked for, the outermost at 0; postfix before infix at each position with the expression built so far as left operand; the expression ends where the last round of attempts started) - bounded to 1 operator application in the quick tier, 2 in the thorough tier - and against real infix operators (2 operands); the binding-power lemma (Verus) gives grouping by associativity.",
        _A,
        "DESIGN 4/C09",
    ),
    "C10": (
        "One Input contract (begin at 0; next yields token i and cursor i+1 or None at the end without moving; spans/slices cover the cursor range) is proved per representation: &[T] and &[T;N] (Verus on the extracted trait-impl methods, every length; Kani twins bounded), &str (bounded buffers), Input::map, map_span, with_context over the symbolic input (unbounded), IterInput and Stream, boxed or not (bounded, at-most-once in-order pulls); all combinators are proved against an input that satisfies nothing but this contract.",
        _A + " IoInput is proved against the same contract over a ghost reader with <= 4 bytes (bounded; BufReader is std's); Graphemes and the 512-item batch boundary of Stream are not covered.",
        "DESIGN 4/C10",
    ),
    "C11": (
        "Memoized::go is proved (Kani/CBMC, loop-free, symbolic input of unbounded length, symbolic entry state, symbolic pre-state of the memo table, contract stub as the memoized parser) against the transparency contract: a first attempt at a position is exactly one run of the parser from the caller's state with the same acceptance, output, consumption, emitted errors and pending error, marked in progress while it runs, recorded iff it failed; a later attempt at that position replays the recorded failure at its recorded position without re-running the parser; a re-entered attempt (the left-recursive step) fails at once without running the parser again, which with the Verus lemma bounding the nesting of distinct keys is why a memoized left-recursive step terminates; other bindings of the table are untouched. Choice of two memoized parsers and the same memoized parser tried twice are proved against the un-memoized contract.",
        _A + " The memo table is the assumed finite-map contract of /verif/kani/hashmodel.rs (hashbrown itself is out of CBMC's reach; cfg-guarded hook), at most 3 bindings; natively the real hashbrown is used. The key's address component is taken as the library computes it; distinct zero-sized memoized parsers at one address share a key - recorded finding. That re-running a parser at the same position fails in the same way (purity, C13) is assumed by memoization itself. Termination of the whole parse is not decided, only the bound on memoized nesting.",
        "DESIGN 4/C11, 9.6",
    ),
    "C12": (
        "Recursive (declare/define and recursive()) is proved to forward to its definition from the caller's state (so a recursive grammar equals its unrolling by induction over a terminating parse); one level of real self-reference is checked bounded; mutually recursive declarations with a handle cloned before definition and the original dropped still reach the definition; a second definition is refused and the first stays in force.",
        _A + " define() is entered through a cfg-guarded hook under Kani (its #[track_caller] location lookup is not translatable); stack depth / stacker is not decided.",
        "DESIGN 4/C12",
    ),
    "C13": (
        "Every harness enters its parser through Mode::invoke (go_emit/go_check, the dynamic-dispatch entry points), so dispatch-path independence is part of every combinator's proof; the hand-written Clone impls are proved to copy every field to the same field (clone = same parser value). Forwarding contract proved for &T, &&T, Box, Rc, Arc, Boxed (and its clone), Either, Cache::get: exactly one run of the wrapped parser from the caller's state with the same result, position, errors and pending error; a second parse through the same Cache is a fresh run; parse_with_state builds its per-parse state from its arguments only. Interior-mutability sites of the library are enumerated by a source scan compared with a reviewed list; hand-written dynamic-dispatch entry points (go_emit/go_check not generated by go_extra!) are found by a source scan, and every obligation of the harnesses of such a combinator is then a C13 obligation (none exists on the pinned tree).",
        _A + " &self immutability of safe code is the compiler's guarantee; threads are not decided.",
        "DESIGN 4/C13",
    ),
    "C14": (
        "Character classes proved over the full domain of u8 and char against their definitions, with u8/char agreement on ASCII; XID classes restricted to ASCII; newline() proved completely on an input of unbounded length; int, digits, whitespace, inline_whitespace, ascii::ident, ascii::keyword, padded checked against reference recognisers with at most 3 tokens left (bounded), on char and byte inputs.",
        _A + " regex, unicode idents beyond ASCII and Graphemes are not covered; char::is_whitespace/is_digit of std are used as specification.",
        "DESIGN 4/C14",
    ),
    "C15": (
        "JustCfg::seq verified by Verus on the extracted function. with_ctx, nested providers (nearest wins, outer back in force afterwards), ignore_with_ctx / then_with_ctx (right parser sees this attempt's left output), map_ctx, configure on just and repeated (matches as the statically configured parser), try_configure errors becoming failures: all proved on the real go / make_iter / next bodies.",
        _A,
        "DESIGN 4/C15",
    ),
    "C16": (
        "NestedIn::go with with_input proved: inner parser starts at the beginning of the inner input in isolation from outer errors, success iff it matches the inner input completely, outer input advances by exactly what the outer parser consumed, inner emissions surface, inner failure surfaces as a pending error no earlier than the nested input, outer pending error preserved by priority.",
        _A + " Inner emissions bounded to 2 per child call.",
        "DESIGN 4/C16",
    ),
    "C17": (
        "Labelled::go (plain and as_context) and MapErr/MapErrWithState::go proved: acceptance, consumption, outputs, number of errors and the pending error's position/merging are those of the undecorated child; label replaces expectations iff the failure is at the first token, context (label, span from start to failure) added iff further in; mapper applied exactly once to the error of this child's failure and never on success or to other parsers' errors.",
        _A,
        "DESIGN 4/C17",
    ),
    "C18": (
        "The inspector invariant (state = fold of exactly the tokens before the position) is a pre- and postcondition of every combinator harness, with checkpoints rewound before every retry; next/peek/skip_while/save/rewind proved to call the hooks exactly as required; observation points (select, map_with, try_map_with, validate, foldl_with) see the invariant; with_state runs its child on a fresh copy per invocation and leaves the outer state untouched; after a successful parse the state reflects the whole input.",
        _A,
        "DESIGN 4/C18",
    ),
    "C19": (
        "Drop-exactly-once contracts on the unsafe sites with a drop-tracking output type: array group and collect_exactly into [T;N] / Box<[T;N]> for N = 2 (3 in thorough): success hands every value to the caller undropped, failure at any index drops the initialised prefix exactly once, Check mode builds no values; the same with a zero-sized output type that has drop glue (the unsafe sites branch on sizes); Kani's pointer/initialisation/drop-validity checks at these sites are obligations of this property too and are clean.",
        _A + " Const-generic N is a finite family of complete proofs (2, 3); everywhere else drop-once is rustc's guarantee for safe code.",
        "DESIGN 4/C19",
    ),
    "C20": (
        "Per function under contract: all of Kani's automatic checks (panics, unwrap on None, arithmetic overflow, bounds, pointer validity, unchecked decode preconditions) pass under the child contract, and 'a failing parser leaves a pending error' (what every can't-fail unwrap relies on) is proved as a postcondition of every primitive and combinator and assumed only of children; &str cursors stay on char boundaries.",
        _A + " Termination, complexity and stack depth are not decided; debug_assert progress checks are compiled out in driver harnesses.",
        "DESIGN 4/C20",
    ),
})
