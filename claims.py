CLAIMS.update({
    "C01": (
        "Every sequencing/choice/option/lookahead combinator's real go body is proved (Kani/CBMC, loop-free harness, symbolic input of unbounded length, symbolic entry state, every behaviour the parser contract allows its children) to satisfy the PEG equation of that node; whole-grammar PEG semantics follows by structural induction over the contracts. Right level because the property quantifies over all grammars x all inputs, which only a modular proof covers.",
        "Assumes the child contract (itself asserted of every combinator), parametricity of safe generic code, Kani/CBMC soundness; slice/Vec choice and multi-token just are bounded stand-ins (listed, not counted).",
        "DESIGN 3, 4/C01",
    ),
})
