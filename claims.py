CLAIMS.update({
    "C01": (
        "Every primitive matcher and every sequencing/choice/option/lookahead/output-transforming combinator's real go body is proved (Kani/CBMC, loop-free harness, symbolic input of unbounded length, symbolic entry state, every behaviour the parser contract allows its children) to satisfy the PEG equation of that node; whole-grammar PEG semantics follows by structural induction over the contracts. Right level because the property quantifies over all grammars x all inputs, which only a modular proof covers.",
        "Assumes the child contract (itself asserted of every combinator), parametricity of safe generic code, Kani/CBMC soundness; slice/Vec choice and multi-token just are bounded stand-ins (listed, not counted).",
        "DESIGN 3, 4/C01",
    ),
    "C02": (
        "The loop-free step functions Repeated::next/next_cfg and SeparatedBy::next (and the adaptor steps enumerate/map/or_not) are proved for all bounds, counts, flags, child behaviours and input lengths against the statement's case table (greedy, possessive, [at_least, at_most], separator only between items or where leading/trailing allows); the drivers that merely iterate a step (collect, count, foldl, foldr, Repeated::go) are bounded stand-ins (<=2 items per run), listed and not counted.",
        "Child contract incl. progress of items (K-prog); drivers bounded; the unbounded lift from steps to whole repetitions is the count induction (DESIGN 3.5 L-count).",
        "DESIGN 3.7, 4/C02",
    ),
    "C04": (
        "Every combinator harness is instantiated at Check mode and must satisfy the same mode-free specification (call pattern and entry states of children, acceptance, position, emitted errors, pending error, inspector) as at Emit; children are mode-independent by contract, so check() and parse() coincide node by node and hence for every grammar. Value-eliding forms (ignore_then, then_ignore, to, ignored, to_slice, to_span, delimited_by, padded_by) are proved against the same specification as their value-building forms.",
        "Same assumptions as C01; a two-run comparison in one harness is not used (too expensive), both runs are compared against one specification instead.",
        "DESIGN 4/C04",
    ),
    "C05": (
        "Emission-framing postcondition proved on every backtracking site covered: on success the emitted-error list is exactly the entry list followed by the emissions of the children whose result is kept, in call order; abandoned children leave nothing (each retried child is entered with the entry list); on failure the entry list is a prefix. Same for the inspector checkpoint (rewound before each retry).",
        "Under CBMC the list is compared by length at every observation point (contents natively in the small-scope sweep); equal lengths imply equal contents because the list is only pushed to / truncated (source scan reported in evidence).",
        "DESIGN 4/C05",
    ),
})
