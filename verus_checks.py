"""Verus back end: mechanical extraction of the listed functions from /repo on every run plus the
theory lemmas kept in /verif/verus. Filled in per property below."""
import json
import os
import re
import subprocess
import time


def run(pid, tier, repo, work):
    import verus_targets
    return verus_targets.run(pid, tier, repo, work)
