#!/usr/bin/env python3
"""Offline setup after a fresh restore: nothing to download; warm the per-worker cargo-kani target
directories' dependency builds lazily (first check does it) and make sure the tools are present."""
import shutil
import subprocess
import sys

missing = [t for t in ("cargo", "cargo-kani", "cbmc", "verus") if shutil.which(t) is None]
if missing:
    print("missing tools:", missing)
    sys.exit(1)
print("tools present:", subprocess.run(["cargo", "kani", "--version"], capture_output=True, text=True).stdout.strip())
sys.exit(0)
