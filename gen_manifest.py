#!/usr/bin/env python3
"""Writes MANIFEST.json from the table below (kept in one place so it stays consistent)."""
import json
import os

V = os.path.dirname(os.path.abspath(__file__))

TECH = "contract-based deductive verification: Kani/CBMC proofs of the real `go` bodies against contract stubs (+ Verus on extracted functions and contract lemmas)"

CLAIMS = {
    # pid: (level text, level note, design ref)
}
NOT_APPLICABLE = {
}
PENDING = "check not built yet in this tree (work in progress; see DESIGN 4 for the plan)"

exec(open(os.path.join(V, "claims.py")).read())

props = [json.loads(l)["id"] for l in open(os.path.join(V, "properties.jsonl"))]
checks = []
na = []
for p in props:
    if p in CLAIMS:
        text, note, ref = CLAIMS[p]
        checks.append({
            "property_id": p,
            "quick_cmd": f"python3 /verif/check.py {p} --tier quick",
            "thorough_cmd": f"python3 /verif/check.py {p} --tier thorough",
            "evidence_file": f"/verif/evidence/{p}.json",
            "replay_cmd_template": "python3 /verif/check.py --replay {path}",
            "engine": "kani+verus",
            "level_claimed": {"category": "proof", "text": text, "design_ref": ref},
            "level_note": note,
            "technique": TECH,
        })
    else:
        na.append({"property_id": p, "reason": NOT_APPLICABLE.get(p, PENDING)})

m = {
    "version": 1,
    "setup_cmd": "python3 /verif/setup.py",
    "hooks": {
        "guard": "cfg(any(kani, chumsky_verif))",
        "enable": "cargo kani sets cfg(kani); the native replay binary is built with RUSTFLAGS='--cfg chumsky_verif'; both with CHUMSKY_VERIF_ENTRY=/verif/kani/entry.rs CHUMSKY_VERIF_DIR=/verif/kani",
        "baseline_off_cmd": "cd /repo && cargo test --workspace --no-fail-fast --offline",
        "source_commits": ["254dc5a", "3d657a1", "16717d6", "cb733f8"],
        "add_only": True,
        "add_only_note": "every hook commit only adds lines; cb733f8 adds a cfg attribute line above the existing `use hashbrown::HashMap;` (so that under cfg(all(kani, feature = \"memoization\")) the name HashMap is the map contract instead) - no existing line is rewritten or deleted",
    },
    "engines": [
        {"name": "kani", "path": "/verif/kani", "serves_properties": sorted(CLAIMS), "kind_free_text": "Kani 0.68 / CBMC 6.11 harnesses compiled into the real crate through the cfg hook; loop-free harnesses over symbolic input of unbounded length with contract stubs as children"},
        {"name": "verus", "path": "/verif/verus", "serves_properties": [p for p in sorted(CLAIMS) if p in ("C02", "C03", "C05", "C06", "C07", "C09", "C10", "C11", "C15")], "kind_free_text": "Verus on functions extracted mechanically from /repo each run, plus theory lemmas over the contracts"},
        {"name": "native-replay", "path": "/verif/replay", "serves_properties": sorted(CLAIMS), "kind_free_text": "the same harness bodies run natively over a small scope to produce and replay counterexamples (never evidence of proof)"},
    ],
    "checks": checks,
    "not_applicable": na,
    "notes": "Exit 2 from a check means undecided (time-out, lost anchor, unsupported construct), never a violation. Fix commits in /repo are listed in /verif/known_findings.json.",
}
json.dump(m, open(os.path.join(V, "MANIFEST.json"), "w"), indent=1)
print("claimed:", sorted(CLAIMS), "not claimed:", [x["property_id"] for x in na])
