def run(pid, tier, repo, work):
    return {"obligations": [], "undecided": [], "time_s": 0.0, "extraction": []}
