"""Verus back end: (a) functions extracted mechanically from /repo on every run, with contracts spliced
in (verus/extract.py states exactly what is dropped), (b) the theory lemmas of verus/theory.rs, (c) a
canary lemma that must be rejected."""
import json
import os
import re
import subprocess
import sys
import time

V = os.path.dirname(os.path.abspath(__file__))
sys.path.insert(0, os.path.join(V, "verus"))
import extract  # noqa: E402

# ---- extraction targets ---------------------------------------------------------------------------
SPEC_PRELUDE = {
    "pratt": """
spec fn lp_spec(a: Associativity) -> int { match a { Associativity::Left(x) => 2 * (x as int), Associativity::Right(x) => 2 * (x as int) + 1 } }
spec fn rp_spec(a: Associativity) -> int { match a { Associativity::Left(x) => 2 * (x as int) + 1, Associativity::Right(x) => 2 * (x as int) } }
""",
    "result": "",
    "repcfg": "",
    "justcfg": "",
    # Rich::merge: the field types the contract does not speak about are opaque; the callee flat_merge is an
    # assumed external function WITHOUT a contract (its result is unconstrained)
    "rich_merge": """
#[verifier::external_body]
#[verifier::accept_recursive_types(T)]
pub struct RichPattern<'a, T> { _p: core::marker::PhantomData<&'a T> }
#[verifier::external_body]
#[verifier::accept_recursive_types(T)]
pub struct MaybeRef<'a, T> { _p: core::marker::PhantomData<&'a T> }
impl<'a, T> RichReason<'a, T> {
    #[verifier::external_body]
    fn flat_merge(self, other: Self) -> Self { unimplemented!() }
}
""",
}
# per unit: the impl header to use instead of the real one, and edits to the extracted type definitions
# (each stated in the evidence): only where Verus cannot ingest the real header
OVERRIDES = {
    "rich_merge": {
        "impl_header": "impl<'a, T, S> Rich<'a, T, S> {",
        "type_edits": [(r"<'a, T, S = SimpleSpan<usize>>", "<'a, T, S>")],
        "note": "impl header `impl<'a, I: Input<'a>> Error<'a, I> for Rich<'a, I::Token, I::Span> where I::Token: PartialEq` replaced by the inherent `impl<'a, T, S> Rich<'a, T, S>` (Verus cannot ingest the Input trait - GAT front-end crash; the body does not use the bounds); the default of Rich's span parameter dropped; RichPattern / MaybeRef opaque; RichReason::flat_merge an assumed external function without contract; the body of merge is byte-for-byte the repository's",
    },
}
TARGETS = {
    # unit: (file, [type header regexes], impl header regex, {fn: contract}, properties)
    "pratt": ("src/pratt.rs", [r"^pub enum Associativity \{"], r"^impl Associativity \{", {
        "left_power": "        ensures r as int == lp_spec(*self),",
        "right_power": "        ensures r as int == rp_spec(*self),",
    }, ["C09"]),
    "result": ("src/lib.rs", [r"^pub struct ParseResult<T, E> \{"], r"^impl<T, E> ParseResult<T, E> \{", {
        "new": "        ensures r.output == output, r.errs@ == errs@,",
        "output": "        ensures r.is_some() == self.output.is_some(), r.is_some() ==> *r.unwrap() == self.output.unwrap(),",
        "has_output": "        ensures r == self.output.is_some(),",
        "has_errors": "        ensures r == (self.errs@.len() > 0),",
        "into_output": "        ensures r == self.output,",
        "into_errors": "        ensures r@ == self.errs@,",
        "into_output_errors": "        ensures r.0 == self.output, r.1@ == self.errs@,",
        "into_result": "        ensures r.is_ok() == (self.errs@.len() == 0 && self.output.is_some()),\n            match r { Ok(v) => Some(v) == self.output, Err(e) => e@ == self.errs@ },",
    }, ["C03"]),
    "rich_merge": ("src/error.rs", [r"^pub enum RichReason<'a, T> \{", r"^pub struct Rich<'a, T, S = SimpleSpan<usize>> \{"], r"^impl<'a, I: Input<'a>> Error<'a, I> for Rich<'a, I::Token, I::Span>", {
        # C06: "Cheap, Simple and Rich report the same span": a merge at equal positions keeps the span (and the
        # context) of the pending error, as the default `Error::merge` of Cheap and Simple does (Kani: err_plain_b1)
        "merge": "        ensures r.span == self.span,",
    }, ["C06"]),
    "repcfg": ("src/combinator.rs", [r"^pub struct RepeatedCfg \{"], r"^impl RepeatedCfg \{", {
        "at_least": "        ensures r.at_least == Some(n), r.at_most == self.at_most,",
        "at_most": "        ensures r.at_most == Some(n), r.at_least == self.at_least,",
        "exactly": "        ensures r.at_least == Some(n), r.at_most == Some(n),",
    }, ["C02", "C15"]),
    # C15: "configure() ... honours configuration": the sequence set through the configuration is the one in force
    "justcfg": ("src/primitive.rs", [r"^pub struct JustCfg<T> \{"], r"^impl<T> JustCfg<T> \{", {
        "seq": "        ensures r.seq == Some(new_seq),",
    }, ["C15"]),
}
# Units made of trait-impl methods of a foreign type (`impl Input for &[T]`): an inherent impl is impossible and
# Verus cannot ingest the Input trait (GAT front-end crash), so each method is lifted to a free function: the
# `unsafe` qualifier dropped, the impl's generics put on the function, and every associated-type projection
# replaced by the definition the same impl gives it (`type Cursor = usize;` etc. - checked against the impl text on
# every run). Bodies are byte-for-byte the repository's.
FREE_UNITS = {
    "slice_input": {
        "props": ["C07", "C10"],
        "generics": "<'src, T>",
        # projection -> (definition used, regex that must be found in the defining impl)
        "assoc": {
            "Self::Cursor": ("usize", "src/input.rs", r"^impl<'src, T> Input<'src> for &'src \[T\] \{", r"type Cursor = usize;"),
            "Self::Span": ("SimpleSpan<usize>", "src/input.rs", r"^impl<'src, T> Input<'src> for &'src \[T\] \{", r"type Span = SimpleSpan<usize>;"),
            "Self::MaybeToken": ("&'src T", "src/input.rs", r"^impl<'src, T> Input<'src> for &'src \[T\] \{", r"type MaybeToken = &'src T;"),
            "Self::Cache": ("&'src [T]", "src/input.rs", r"^impl<'src, T> Input<'src> for &'src \[T\] \{", r"type Cache = Self;"),
            "Self::Slice": ("&'src [T]", "src/input.rs", r"^impl<'src, T> SliceInput<'src> for &'src \[T\] \{", r"type Slice = &'src \[T\];"),
        },
        "types": [("src/span.rs", r"^pub struct SimpleSpan<T = usize, C = \(\)> \{")],
        # whole trait impls taken as they are (contract spliced into the one method)
        "impls": [("src/span.rs", r"^impl<T> From<Range<T>> for SimpleSpan<T> \{", {"from": ""})],
        "fns": [
            ("src/input.rs", r"^impl<'src, T> Input<'src> for &'src \[T\] \{", "next_maybe",
             "    requires old(this)@.len() <= usize::MAX,\n    ensures *final(this) == *old(this),\n        (*old(cursor) < old(this)@.len()) ==> (r == Some(&old(this)@[*old(cursor) as int]) && *final(cursor) == *old(cursor) + 1),\n        (*old(cursor) >= old(this)@.len()) ==> (r.is_none() && *final(cursor) == *old(cursor)),"),
            ("src/input.rs", r"^impl<'src, T> Input<'src> for &'src \[T\] \{", "span",
             "    ensures r.start == *range.start, r.end == *range.end, *final(_this) == *old(_this),"),
            ("src/input.rs", r"^impl<'src, T> ExactSizeInput<'src> for &'src \[T\] \{", "span_from",
             "    ensures r.start == *range.start, r.end == old(this)@.len(), *final(this) == *old(this),"),
            ("src/input.rs", r"^impl<'src, T> SliceInput<'src> for &'src \[T\] \{", "full_slice",
             "    ensures r@ == old(this)@, *final(this) == *old(this),"),
            ("src/input.rs", r"^impl<'src, T> SliceInput<'src> for &'src \[T\] \{", "slice",
             "    requires *range.start <= *range.end <= old(this)@.len(),\n    ensures r@ == old(this)@.subrange(*range.start as int, *range.end as int), *final(this) == *old(this),"),
            ("src/input.rs", r"^impl<'src, T> SliceInput<'src> for &'src \[T\] \{", "slice_from",
             "    requires *from.start <= old(this)@.len(),\n    ensures r@ == old(this)@.subrange(*from.start as int, old(this)@.len() as int), *final(this) == *old(this),"),
        ],
        # what `Range<T> -> SimpleSpan<T>` is specified to be (vstd's From contract is stated through this trait)
        "prelude": """
use core::ops::{Range, RangeFrom};
impl<T> vstd::std_specs::convert::FromSpecImpl<Range<T>> for SimpleSpan<T, ()> {
    open spec fn obeys_from_spec() -> bool { true }
    open spec fn from_spec(v: Range<T>) -> Self { SimpleSpan { start: v.start, end: v.end, context: () } }
}
""",
        "note": "trait-impl methods of `&'src [T]` (Input / ExactSizeInput / SliceInput) lifted to free functions generic over <'src, T>: `unsafe` dropped, associated-type projections replaced by the definitions the impls themselves give (each definition re-checked in the impl text on every run); `impl<T> From<Range<T>> for SimpleSpan<T>` and the struct SimpleSpan taken whole (derives dropped with the attributes); the specification of that conversion supplied through vstd's FromSpecImpl; `old(this)@.len() <= usize::MAX` is the type invariant of a Rust slice stated as a precondition; the preconditions of slice / slice_from are the documented safety contract of SliceInput (cursors generated by this input, start <= end)",
    },
}

def _array_twin(d):
    """the `&'src [T; N]` impls have the same shape: same functions, other impl headers / generics / Cache"""
    import copy
    a = copy.deepcopy(d)
    def conv(rx):
        out = rx.replace("<'src, T> ", "<'src, T: 'src, const N: usize> ").replace("\\[T\\]", "\\[T; N\\]")
        assert out != rx
        return out
    a["generics"] = "<'src, T: 'src, const N: usize>"
    a["assoc"] = {k: (("&'src [T; N]" if k == "Self::Cache" else v[0]), v[1], conv(v[2]), v[3]) for k, v in d["assoc"].items()}
    a["fns"] = [(f[0], conv(f[1]), f[2], f[3]) for f in d["fns"]]
    a["note"] = d["note"].replace("`&'src [T]`", "`&'src [T; N]`").replace("<'src, T>", "<'src, T: 'src, const N: usize>")
    return a


FREE_UNITS["array_input"] = _array_twin(FREE_UNITS["slice_input"])
# `&'src str`: only the functions Verus can reason about (span construction and the whole-buffer slice); next_maybe
# (chars() / len_utf8) and slice / slice_from / span_from (byte indexing and byte length of str) are outside Verus and
# stay with the bounded Kani harnesses str_input_b4 / str_slice_b4
_STR_IN = r"^impl<'src> Input<'src> for &'src str \{"
_STR_SL = r"^impl<'src> SliceInput<'src> for &'src str \{"
FREE_UNITS["str_input"] = {
    "props": ["C07", "C10"],
    "generics": "<'src>",
    "assoc": {
        "Self::Cursor": ("usize", "src/input.rs", _STR_IN, r"type Cursor = usize;"),
        "Self::Span": ("SimpleSpan<usize>", "src/input.rs", _STR_IN, r"type Span = SimpleSpan<usize>;"),
        "Self::Cache": ("&'src str", "src/input.rs", _STR_IN, r"type Cache = Self;"),
        "Self::Slice": ("&'src str", "src/input.rs", _STR_SL, r"type Slice = &'src str;"),
    },
    "types": FREE_UNITS["slice_input"]["types"],
    "impls": FREE_UNITS["slice_input"]["impls"],
    "fns": [
        ("src/input.rs", _STR_IN, "span", "    ensures r.start == *range.start, r.end == *range.end, *final(_this) == *old(_this),"),
        ("src/input.rs", _STR_SL, "full_slice", "    ensures r@ == old(this)@, *final(this) == *old(this),"),
    ],
    "prelude": FREE_UNITS["slice_input"]["prelude"],
    "note": "trait-impl methods of `&'src str` lifted to free functions generic over <'src> as for the slice unit; only `span` and `full_slice` (the rest of this impl needs byte-level reasoning about str, which Verus does not offer)",
}
# the collecting container the statement of C02 speaks about ("the collected vector"): the real trait taken whole, the
# real impl for Vec<T> taken whole with the contract spliced in - pushing appends exactly the item, for vectors of
# every length; a fresh container is empty
FREE_UNITS["container_vec"] = {
    "props": ["C02"],
    "generics": "", "assoc": {}, "fns": [],
    "types": [("src/container.rs", r"^pub trait Container<T>: Default \{")],
    "impls": [("src/container.rs", r"^impl<T> Container<T> for Vec<T> \{", {
        "with_capacity": "        ensures r@.len() == 0,",
        "push": "        ensures final(self)@ == old(self)@.push(item),",
    })],
    "prelude": "",
    "note": "the trait Container and `impl<T> Container<T> for Vec<T>` taken whole (doc comments and attributes dropped); trusted: vstd's assumed specifications of Vec::with_capacity and Vec::push",
}
for _u, _d in FREE_UNITS.items():
    TARGETS[_u] = ((_d["fns"] or _d["impls"])[0][0], None, None, {**{k: v for f in _d["impls"] for k, v in f[2].items()}, **{f[2]: f[3] for f in _d["fns"]}}, _d["props"])
    SPEC_PRELUDE[_u] = _d["prelude"]
    OVERRIDES[_u] = {"note": _d["note"]}

THEORY = {
    # lemma name -> properties it serves
    "lemma_fold_is_max": ["C06"], "lemma_fold_from_none": ["C06", "C20"], "lemma_fold_ids": ["C06"],
    "lemma_truncate_after_append": ["C05"], "lemma_kept_then_abandoned": ["C05"],
    "lemma_powers": ["C09"], "lemma_count": ["C02"], "lemma_memo_nesting_bounded": ["C11"],
}
CANARY = """
use vstd::prelude::*;
verus! {
proof fn canary_must_be_rejected(x: nat) ensures x < 5 { }
}
fn main() {}
"""


def build_free_unit(unit, repo):
    d = FREE_UNITS[unit]
    srcs = {}

    def src_of(file):
        if file not in srcs:
            srcs[file] = open(os.path.join(repo, file), errors="replace").read()
        return srcs[file]

    parts, where = [], []
    for proj, (_defn, file, impl_re, def_re) in d["assoc"].items():
        impl_text, _line, _ = extract.cut_item(src_of(file), impl_re)
        if not re.search(def_re, impl_text):
            raise extract.LostAnchor(f"{proj}: `{def_re}` no longer in {impl_re}")
    for file, tr in d["types"]:
        text, line, _ = extract.cut_item(src_of(file), tr)
        # visibility kept (the specification of the conversion is a public spec function over this type)
        parts.append("\n".join(l for l in text.split("\n") if not l.strip().startswith(("///", "#["))))
        where.append(f"{file}:{line}")
    for file, impl_re, contracts in d["impls"]:
        impl_text, impl_line, _ = extract.cut_item(src_of(file), impl_re)
        for fn, contract in contracts.items():
            sig, fbody, off = extract.cut_fn(impl_text, fn)
            if contract:
                impl_text = impl_text.replace(sig + fbody, extract.with_contract(sig, fbody, contract), 1)
            where.append(f"{file}:{impl_line + off} fn {fn}")
        parts.append(extract.strip_attrs_docs_vis(impl_text))
        where.append(f"{file}:{impl_line} (whole impl)")
    for file, impl_re, fn, contract in d["fns"]:
        impl_text, impl_line, _ = extract.cut_item(src_of(file), impl_re)
        sig, fbody, off = extract.cut_fn(impl_text, r"(?:unsafe\s+)?fn\s+" + fn, raw=True)
        sig = re.sub(r"\bunsafe\s+fn\b", "fn", sig)
        sig = re.sub(r"\bfn\s+" + fn + r"\b", "fn " + fn + d["generics"], sig, count=1)
        for proj, (defn, *_r) in d["assoc"].items():
            sig = sig.replace(proj, defn)
            if proj in fbody:
                raise extract.LostAnchor(f"{fn}: body mentions {proj}")
        parts.append(extract.with_contract(sig, fbody, contract))
        where.append(f"{file}:{impl_line + off} fn {fn}")
    text = "use vstd::prelude::*;\nverus! {\n" + SPEC_PRELUDE[unit] + "\n" + "\n\n".join(parts) + "\n} // verus!\nfn main() {}\n"
    return text, where


def build_unit(unit, repo):
    if unit in FREE_UNITS:
        return build_free_unit(unit, repo)
    file, type_res, impl_re, fns, _ = TARGETS[unit]
    src = open(os.path.join(repo, file), errors="replace").read()
    parts, where = [], []
    ov = OVERRIDES.get(unit, {})
    for tr in type_res:
        text, line, _ = extract.cut_item(src, tr)
        text = extract.strip_attrs_docs_vis(text)
        for pat, rep in ov.get("type_edits", []):
            text = re.sub(pat, rep, text)
        parts.append(text)
        where.append(f"{file}:{line}")
    impl_text, impl_line, _ = extract.cut_item(src, impl_re)
    header = ov.get("impl_header") or impl_text[:impl_text.index("{") + 1]
    body = []
    for fn, contract in fns.items():
        sig, fbody, off = extract.cut_fn(impl_text, fn)
        body.append(extract.with_contract(sig, fbody, contract))
        where.append(f"{file}:{impl_line + off} fn {fn}")
    parts.append(extract.strip_attrs_docs_vis(header) + "\n" + "\n\n".join(body) + "\n}")
    text = "use vstd::prelude::*;\nverus! {\n" + SPEC_PRELUDE[unit] + "\n" + "\n\n".join(parts) + "\n} // verus!\nfn main() {}\n"
    return text, where


def run_verus(path, work):
    t0 = time.time()
    p = subprocess.run(["verus", path, "--output-json", "--time"], stdout=subprocess.PIPE, stderr=subprocess.PIPE, text=True, cwd=work, timeout=300)
    dt = time.time() - t0
    res = None
    try:
        res = json.loads(p.stdout)
    except Exception:
        m = re.search(r"\{.*\}", p.stdout, re.S)
        if m:
            try:
                res = json.loads(m.group(0))
            except Exception:
                res = None
    return p.returncode, res, p.stderr, dt


def failed_fns(stderr, text=None):
    """names of functions mentioned in Verus error spans; with the verified text given, also the function that
    encloses each reported line (`--> file:LINE:COL`)"""
    names = set()
    for m in re.finditer(r"fn (\w+)", stderr):
        names.add(m.group(1))
    if text is not None:
        lines = text.split("\n")
        for m in re.finditer(r"--> [^\n:]+:(\d+):\d+", stderr):
            i = min(int(m.group(1)), len(lines)) - 1
            while i >= 0:
                mm = re.search(r"\bfn\s+(\w+)", lines[i])
                if mm:
                    names.add(mm.group(1))
                    break
                i -= 1
    return names


def run(pid, tier, repo, work):
    out = {"obligations": [], "undecided": [], "time_s": 0.0, "extraction": []}
    vwork = os.path.join(work, "verus")
    os.makedirs(vwork, exist_ok=True)
    ran_any = False
    for unit, (file, _t, _i, fns, props) in TARGETS.items():
        if pid not in props:
            continue
        ran_any = True
        try:
            text, where = build_unit(unit, repo)
        except extract.LostAnchor as e:
            out["undecided"].append(f"{unit}: lost anchor in {file}: {e}")
            continue
        path = os.path.join(vwork, f"extracted_{unit}.rs")
        open(path, "w").write(text)
        out["extraction"].append({"unit": unit, "from": where, "file": path, "dropped": "attributes, doc comments, visibility; result named (r: T); contract spliced between signature and body; a by-value `mut self` receiver desugared to `self` + `let mut self_ = self;` with `self` renamed in the body" + ("; " + OVERRIDES[unit]["note"] if unit in OVERRIDES else "")})
        rc, res, err, dt = run_verus(path, vwork)
        out["time_s"] += dt
        vr = (res or {}).get("verification-results", {})
        if rc == 0 and vr.get("errors") == 0 and vr.get("verified", 0) >= len(fns):
            for fn in fns:
                out["obligations"].append({"name": f"{unit}::{fn}", "status": "verified"})
        elif vr.get("errors", 0) > 0 and vr.get("success") is False and "error: " in err and not re.search(r"error(\[E\d+\])?: (?!postcondition|precondition|assertion|possible arithmetic|this|unable)", err.replace("error: aborting", "")):
            bad = failed_fns(err, text) & set(fns)
            for fn in fns:
                if fn in bad or not bad:
                    out["obligations"].append({"name": f"{unit}::{fn}", "status": "failed", "message": err[-2500:]})
                else:
                    out["obligations"].append({"name": f"{unit}::{fn}", "status": "verified"})
        else:
            out["undecided"].append(f"{unit}: verus could not process the extracted text (rc={rc}): {err[-400:]}")
    lemmas = [l for l, props in THEORY.items() if pid in props]
    if lemmas:
        ran_any = True
        rc, res, err, dt = run_verus(os.path.join(V, "verus", "theory.rs"), vwork)
        out["time_s"] += dt
        vr = (res or {}).get("verification-results", {})
        if rc == 0 and vr.get("errors") == 0:
            for l in lemmas:
                out["obligations"].append({"name": f"theory::{l}", "status": "verified"})
        else:
            bad = failed_fns(err)
            for l in lemmas:
                st = "failed" if (l in bad or not (bad & set(THEORY))) else "verified"
                out["obligations"].append({"name": f"theory::{l}", "status": st, "message": err[-2500:]})
    if ran_any:
        # canary: a false lemma must be rejected, otherwise nothing above is believed
        cpath = os.path.join(vwork, "canary.rs")
        open(cpath, "w").write(CANARY)
        rc, res, err, dt = run_verus(cpath, vwork)
        out["time_s"] += dt
        if rc == 0:
            out["undecided"].append("verus canary: a false lemma was accepted")
        out["canary_rejected"] = rc != 0
    out["time_s"] = round(out["time_s"], 1)
    return out


if __name__ == "__main__":
    print(json.dumps(run(sys.argv[1], "quick", os.environ.get("VERIF_REPO", "/repo"), "/verif/.work"), indent=1)[:6000])
