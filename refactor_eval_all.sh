#!/bin/bash
V=$(cd $(dirname $0) && pwd)
$V/refactor_eval.sh rf1 '^(or_|choice)' C01 C05 C06
$V/refactor_eval.sh rf2 '^repeated_(next|go)' C02 C05
$V/refactor_eval.sh rf3 '^sepby_next' C02 C05
$V/refactor_eval.sh rf4 '^(add_alt|or_emit|then_emit|just_)' C06 C20
$V/refactor_eval.sh rf5 '^recover_via_parser' C08 C05
$V/refactor_eval.sh rf6 '^pratt_(chain|loop)' C09
$V/refactor_eval.sh rf7 '^labelled' C17
$V/refactor_eval.sh rf8 '^or_not' C01 C05 C04
echo "### refactors done"
