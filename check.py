#!/usr/bin/env python3
"""Single entry point of the verification machinery.

  check.py <Cxx> [--tier quick|thorough]     decide property Cxx on /repo's current working tree
  check.py --replay <path>                   re-execute a recorded counterexample on the real code
  check.py --register                        (maintenance) run every harness and rewrite obligations.json
  check.py --selftest                        canaries: a false contract must fail (Kani and Verus)

Exit status: 0 property held on everything explored (KNOWN-FINDING lines allowed);
             1 a registered obligation now fails ->  VIOLATION property=<id> replay=<path> [no-failing-input-found];
             2 undecided (time-out, unsupported construct, lost anchor, harness drift) - never an alarm.
"""
import argparse
import concurrent.futures as cf
import hashlib
import json
import os
import re
import shutil
import subprocess
import sys
import time

VERIF = os.path.dirname(os.path.abspath(__file__))
REPO = os.environ.get("VERIF_REPO", "/repo")
WORK = os.environ.get("VERIF_WORK", os.path.join(VERIF, ".work"))
# self-tests against a scratch copy of the repository keep their evidence / replays out of the way
SCRATCH = os.path.realpath(REPO) != "/repo"
OUTDIR = WORK if SCRATCH else VERIF
KDIR = os.path.join(VERIF, "kani")
FEATURES = "std,pratt,extension,either,unstable"
WORKERS = int(os.environ.get("VERIF_WORKERS", "12"))
HARNESS_TIMEOUT = {"quick": 800, "thorough": 1500}

sys.path.insert(0, VERIF)


def log(*a):
    print(*a, file=sys.stderr, flush=True)


# ----------------------------------------------------------------------------------------------
# harness catalogue: parsed from the `harnesses! { name = expr; }` blocks of /verif/kani/h_*.rs
# ----------------------------------------------------------------------------------------------
def catalogue():
    cat = {}
    for fn in sorted(os.listdir(KDIR)):
        if not (fn.startswith("h_") and fn.endswith(".rs")):
            continue
        mod = fn[:-3]
        src = open(os.path.join(KDIR, fn)).read()
        cfg = {"dbg": True, "features": ""}
        m = re.search(r"//\s*@config\s+(.*)", src)
        if m:
            for kv in m.group(1).split():
                k, v = kv.split("=")
                if k == "debug_assertions":
                    cfg["dbg"] = v == "on"
                if k == "features":
                    cfg["features"] = v
        for blk in re.finditer(r"harnesses!\s*\{(.*?)\n\}", src, re.S):
            attrs = []
            for line in blk.group(1).split("\n"):
                line = line.strip()
                if not line or line.startswith("//"):
                    continue
                if line.startswith("#["):
                    attrs.append(line)
                    continue
                mm = re.match(r"(\w+)\s*=\s*(.+);", line)
                if mm:
                    name, expr = mm.group(1), mm.group(2)
                    bound = None
                    b = re.search(r"_b(\d+)(_t)?$", name)
                    if b:
                        bound = int(b.group(1))
                    cat[name] = {
                        "module": mod,
                        "fq": f"input::verif::{mod}::proofs::{name}",
                        "expr": expr,
                        "dbg": cfg["dbg"],
                        "features": cfg["features"],
                        "bounded": bound,
                        "unwind": next((int(re.search(r"\d+", a).group()) for a in attrs if "unwind" in a), None),
                        "stub": any("kani::stub" in a for a in attrs),
                    }
                    attrs = []
    return cat


# ----------------------------------------------------------------------------------------------
# running Kani
# ----------------------------------------------------------------------------------------------
def kani_env(dbg):
    env = dict(os.environ)
    env["CHUMSKY_VERIF_DIR"] = KDIR
    env["CHUMSKY_VERIF_ENTRY"] = os.path.join(KDIR, "entry.rs")
    env["CARGO_NET_OFFLINE"] = "true"
    if not dbg:
        env["CARGO_PROFILE_DEV_DEBUG_ASSERTIONS"] = "false"
        env["CARGO_PROFILE_DEV_OVERFLOW_CHECKS"] = "true"
    return env


CHECK_RE = re.compile(
    r"^Check \d+: (?P<name>.+)\n\s*- Status: (?P<status>\w+)\n\s*- Description: \"(?P<desc>.*)\"\n\s*- Location: (?P<loc>.*)$",
    re.M,
)


def parse_kani(out):
    checks = []
    for m in CHECK_RE.finditer(out):
        desc = m.group("desc")
        if desc.startswith("concat!("):
            # tags assembled with concat!("C01/", "any", ".x"): Kani prints the macro call text
            desc = "".join(re.findall(r'\\?"((?:[^"\\]|\\[^"])*?)\\?"', desc))
        if desc.startswith('"') and desc.endswith('"'):
            desc = desc[1:-1]
        checks.append({"name": m.group("name"), "status": m.group("status"), "desc": desc, "loc": m.group("loc")})
    res = {"checks": checks}
    m = re.search(r"Verification Time: ([\d.]+)s", out)
    res["time"] = float(m.group(1)) if m else None
    crashed = "CBMC failed" in out or "CBMC appears to have run out of memory" in out or "CBMC timed out" in out
    if crashed and not checks:
        # the back end died (killed by the memory watchdog / the kernel): no verdict at all
        res["verdict"] = "NONE"
        res["backend_crashed"] = True
    elif "VERIFICATION:- SUCCESSFUL" in out:
        res["verdict"] = "SUCCESSFUL"
    elif "VERIFICATION:- FAILED" in out:
        res["verdict"] = "FAILED"
    else:
        res["verdict"] = "NONE"
    return res


_HASH_CACHE = {}


def _repo_hash():
    """Content hash of the repository side of a run: sources, manifests, feature set, tool version."""
    if "repo" not in _HASH_CACHE:
        hsh = hashlib.sha256()
        files = []
        for root, _d, fs in os.walk(os.path.join(REPO, "src")):
            files += [os.path.join(root, f) for f in fs]
        files += [os.path.join(REPO, f) for f in ("Cargo.toml", "Cargo.lock") if os.path.exists(os.path.join(REPO, f))]
        for f in sorted(files):
            hsh.update(os.path.relpath(f, REPO).encode())
            hsh.update(open(f, "rb").read())
        hsh.update(FEATURES.encode())
        try:
            hsh.update(subprocess.run(["cargo", "kani", "--version"], capture_output=True, text=True).stdout.encode())
        except Exception:
            pass
        _HASH_CACHE["repo"] = hsh.hexdigest()
    return _HASH_CACHE["repo"]


def _module_files(mod, seen=None):
    """The harness module's own source plus the harness modules it imports (`use super::h_x`)."""
    seen = seen if seen is not None else set()
    if mod in seen:
        return seen
    seen.add(mod)
    try:
        src = open(os.path.join(KDIR, mod + ".rs")).read()
    except OSError:
        return seen
    for dep in re.findall(r"super::(h_\w+)", src):
        _module_files(dep, seen)
    return seen


def tree_hash(mod=None):
    """Content hash of everything a harness run depends on: the repository's sources and manifests, the
    framework (fw.rs, entry.rs), the harness module and the harness modules it imports, the tool versions.
    A cached result is reused only under the identical hash, i.e. when a rebuild from the current working
    tree would run the verifier on exactly the same text of that harness and of the code under contract.
    Without `mod`: hash over all harness sources (identifies the tree in the evidence)."""
    key = mod or "*"
    if key not in _HASH_CACHE:
        hsh = hashlib.sha256()
        hsh.update(_repo_hash().encode())
        if mod is None:
            names = sorted(f for f in os.listdir(KDIR) if f.endswith(".rs"))
        else:
            names = ["entry.rs", "fw.rs"] + sorted(m + ".rs" for m in _module_files(mod))
            if re.search(r"//\s*@config\s+.*features=\S*memoization", open(os.path.join(KDIR, mod + ".rs")).read()):
                names.append("hashmodel.rs")  # the map contract is compiled in with the memoization feature only
            # mods.rs only declares the harness modules (and lists them for the native registry): the lines
            # that concern this harness's modules are part of its text, the declarations of other modules are not
            deps = _module_files(mod)
            decl = [l for l in open(os.path.join(KDIR, "mods.rs")).read().split("\n") if any(re.search(r"\b" + d + r"\b", l) for d in deps)]
            hsh.update("\n".join(decl).encode())
        for f in names:
            hsh.update(f.encode())
            hsh.update(open(os.path.join(KDIR, f), "rb").read())
        _HASH_CACHE[key] = hsh.hexdigest()[:24]
    return _HASH_CACHE[key]


def cache_path(name, h):
    return os.path.join(WORK, "cache", tree_hash(h["module"]), ("dbg_" if h["dbg"] else "nodbg_") + name + ".json")


def run_harness(name, h, worker, tier):
    cp = cache_path(name, h)
    if os.environ.get("VERIF_NO_CACHE") != "1" and os.path.exists(cp):
        try:
            res = json.load(open(cp))
            res["cached"] = True
            return name, res
        except Exception:
            pass
    tdir = os.path.join(WORK, "kt", ("dbg" if h["dbg"] else "nodbg") + ("_" + h["features"] if h.get("features") else ""), f"w{worker}")
    os.makedirs(tdir, exist_ok=True)
    cmd = [
        "cargo", "kani", "--no-default-features", "--features", FEATURES + ("," + h["features"] if h.get("features") else ""),
        "--target-dir", tdir, "--harness", h["fq"], "--exact", "--output-format", "regular",
    ]
    if h.get("stub"):
        cmd[2:2] = ["-Z", "stubbing"]
    t0 = time.time()
    try:
        p = subprocess.run(cmd, cwd=REPO, env=kani_env(h["dbg"]), stdout=subprocess.PIPE, stderr=subprocess.STDOUT,
                           text=True, timeout=HARNESS_TIMEOUT[tier])
        out = p.stdout
        rc = p.returncode
    except subprocess.TimeoutExpired as e:
        out = (e.stdout or b"").decode("utf-8", "replace") if isinstance(e.stdout, bytes) else (e.stdout or "")
        rc = 124
        # make sure no solver is left behind
        subprocess.run(["pkill", "-f", tdir], stdout=subprocess.DEVNULL, stderr=subprocess.DEVNULL)
    res = parse_kani(out)
    res["rc"] = rc
    res["wall"] = round(time.time() - t0, 1)
    res["raw_tail"] = out[-3000:]
    if rc == 124:
        res["verdict"] = "TIMEOUT"
    elif res["verdict"] == "NONE":
        res["verdict"] = "ERROR"
        res["compile_error"] = "error: could not compile" in out or "error[E" in out
    os.makedirs(os.path.join(WORK, "logs"), exist_ok=True)
    with open(os.path.join(WORK, "logs", name + ".log"), "w") as f:
        f.write(out)
    if res["verdict"] in ("SUCCESSFUL", "FAILED"):
        # the result belongs to the text that was compiled: if the tree or the harness changed while the
        # verifier ran, it is neither stored nor believed
        before = tree_hash(h["module"])
        _HASH_CACHE.clear()
        if tree_hash(h["module"]) != before:
            res["verdict"] = "ERROR"
            res["tree_changed_during_run"] = True
            return name, res
        os.makedirs(os.path.dirname(cp), exist_ok=True)
        res["ran_at"] = time.strftime("%Y-%m-%dT%H:%M:%SZ", time.gmtime())
        json.dump(res, open(cp + ".tmp", "w"))
        os.replace(cp + ".tmp", cp)
    return name, res


CBMC_MAX_GB = float(os.environ.get("VERIF_CBMC_MAX_GB", "12"))


def memory_watchdog(stop):
    """One solver process must not take the machine down (no swap here): a cbmc started from our work
    directory whose resident set exceeds VERIF_CBMC_MAX_GB is killed; its harness is then undecided."""
    while not stop.wait(2.0):
        try:
            for pid in os.listdir("/proc"):
                if not pid.isdigit():
                    continue
                try:
                    comm = open(f"/proc/{pid}/comm").read().strip()
                    if comm != "cbmc":
                        continue
                    cmd = open(f"/proc/{pid}/cmdline").read()
                    if WORK not in cmd:
                        continue
                    rss_kb = 0
                    for line in open(f"/proc/{pid}/status"):
                        if line.startswith("VmRSS:"):
                            rss_kb = int(line.split()[1])
                    if rss_kb > CBMC_MAX_GB * 1024 * 1024:
                        log(f"  memory watchdog: cbmc {pid} at {rss_kb // 1024} MB > {CBMC_MAX_GB} GB, killed")
                        os.kill(int(pid), 9)
                except (OSError, ValueError):
                    continue
        except OSError:
            pass


def run_pool(names, cat, tier):
    results = {}
    if not names:
        return results
    import threading as _th
    _stop = _th.Event()
    _wd = _th.Thread(target=memory_watchdog, args=(_stop,), daemon=True)
    _wd.start()
    try:
        return _run_pool(names, cat, tier)
    finally:
        _stop.set()


def _run_pool(names, cat, tier):
    results = {}
    # one worker slot per concurrent process, each with its own cargo target dir
    free = {True: list(range(WORKERS)), False: list(range(WORKERS))}
    import threading
    lock = threading.Lock()

    def job(n):
        h = cat[n]
        with lock:
            w = free[h["dbg"]].pop()
        try:
            return run_harness(n, h, w, tier)
        finally:
            with lock:
                free[h["dbg"]].append(w)

    with cf.ThreadPoolExecutor(max_workers=WORKERS) as ex:
        for n, r in ex.map(job, names):
            results[n] = r
            log(f"  [{r['verdict']:>10}] {n}  {r['wall']}s" + ("  (same tree+harness hash: result of this machinery's earlier run reused)" if r.get("cached") else ""))
    return results


TAG_RE = re.compile(r"^(C\d\d|FW)/([\w.\-]+)")


def split_checks(res):
    """-> (tagged {tag: status}, auto-check failures, covers)"""
    tagged, auto_fail, covers, unwind_fail, unsupported = {}, [], [], [], []
    n_auto = 0
    for c in res["checks"]:
        m = TAG_RE.match(c["desc"])
        if ".cover." in c["name"] or c["name"].endswith(".cover") or re.search(r"\.cover\.\d+$", c["name"]):
            # the same cover may be compiled into several branches / instances: best status wins
            rank = {"SATISFIED": 3, "UNDETERMINED": 2, "UNSATISFIABLE": 1, "UNREACHABLE": 0}
            for k, (d0, s0_) in enumerate(covers):
                if d0 == c["desc"]:
                    if rank.get(c["status"], 2) > rank.get(s0_, 2):
                        covers[k] = (d0, c["status"])
                    break
            else:
                covers.append((c["desc"], c["status"]))
            continue
        if m:
            tag = m.group(0)
            st = c["status"]
            # the same source assertion may appear in several monomorphic copies: worst status wins
            prev = tagged.get(tag)
            order = {"FAILURE": 3, "UNDETERMINED": 2, "ERROR": 2, "SUCCESS": 1, "UNREACHABLE": 0}
            if prev is None or order.get(st, 2) > order.get(prev, 2):
                tagged[tag] = st
            continue
        n_auto += 1
        if c["status"] in ("FAILURE", "UNDETERMINED", "ERROR"):
            if "unwinding assertion" in c["desc"]:
                unwind_fail.append(c)
            elif "is not currently supported" in c["desc"] or "unsupported" in c["name"]:
                unsupported.append(c)
            else:
                auto_fail.append(c)
    return tagged, auto_fail, covers, unwind_fail, unsupported, n_auto


# ----------------------------------------------------------------------------------------------
# registry of obligations
# ----------------------------------------------------------------------------------------------
REG_PATH = os.path.join(VERIF, "obligations.json")
KF_PATH = os.path.join(VERIF, "known_findings.json")


def load_registry():
    if os.path.exists(REG_PATH):
        return json.load(open(REG_PATH))
    return {"harnesses": {}}


def load_known():
    if os.path.exists(KF_PATH):
        return json.load(open(KF_PATH))
    return {"findings": [], "fixed": []}


QUICK_MAX_REGISTERED_S = 320


def tier_of(name, entry=None):
    """quick = every harness except the larger-bound variants (`_t`) and the few whose solver time at
    registration exceeds QUICK_MAX_REGISTERED_S (they would risk the per-harness time limit on a slower or
    busier machine; a time-out is undecided, never an alarm, but a check one runs on every change should not
    be undecided); the zero-sized-error instances (`_zst`) are cheap and part of quick. thorough = all."""
    if re.search(r"_t$", name) or "_thorough" in name:
        return "thorough"
    if entry is not None and (entry.get("time") or 0) > QUICK_MAX_REGISTERED_S:
        return "thorough"
    return "quick"


def register(only=None):
    cat = catalogue()
    names = [n for n in cat if only is None or re.search(only, n)]
    log(f"registering {len(names)} harnesses")
    results = run_pool(names, cat, "thorough")
    reg = load_registry()
    for n, r in results.items():
        tagged, auto_fail, covers, unwind_fail, unsupported, n_auto = split_checks(r)
        reg["harnesses"][n] = {
            "module": cat[n]["module"],
            "verdict": r["verdict"],
            "time": r["time"],
            "bounded": cat[n]["bounded"],
            "tags": tagged,
            "auto_checks": n_auto,
            "auto_failures": [f"{c['name']}: {c['desc']} @ {c['loc']}" for c in auto_fail],
            "unwind_failures": len(unwind_fail),
            "unsupported": [c["desc"] for c in unsupported][:5],
            "covers": covers,
        }
    # drop harnesses that no longer exist
    for n in list(reg["harnesses"]):
        if n not in cat:
            del reg["harnesses"][n]
    json.dump(reg, open(REG_PATH, "w"), indent=1, sort_keys=True)
    bad = [n for n, r in results.items() if r["verdict"] not in ("SUCCESSFUL",)]
    log("not successful:", bad)
    for n in results:
        for d, st in reg["harnesses"][n]["covers"]:
            if st != "SATISFIED":
                log(f"  cover not satisfied at registration: {n}: {d}: {st}")
    return 0


# ----------------------------------------------------------------------------------------------
# native replay
# ----------------------------------------------------------------------------------------------
def build_replay():
    env = dict(os.environ)
    env["CHUMSKY_VERIF_DIR"] = KDIR
    env["CHUMSKY_VERIF_ENTRY"] = os.path.join(KDIR, "entry.rs")
    env["RUSTFLAGS"] = "--cfg chumsky_verif"
    env["CARGO_NET_OFFLINE"] = "true"
    rdir = os.path.join(VERIF, "replay")
    # the crate depends on chumsky by path; VERIF_REPO lets self-tests point it at a scratch copy
    manifest = open(os.path.join(rdir, "Cargo.toml.in")).read().replace("@REPO@", REPO)
    tdir = os.path.join(WORK, "replay-target")
    if SCRATCH:
        # private copy of the tiny driver crate so that self-tests against a scratch copy of the repository
        # neither share a manifest with each other nor touch /verif/replay
        rdir2 = os.path.join(WORK, "replay-crate")
        shutil.rmtree(rdir2, ignore_errors=True)
        shutil.copytree(rdir, rdir2, ignore=shutil.ignore_patterns("target", "Cargo.lock", "Cargo.toml"))
        rdir = rdir2
    open(os.path.join(rdir, "Cargo.toml"), "w").write(manifest)
    p = subprocess.run(["cargo", "build", "--offline", "--target-dir", tdir], cwd=rdir, env=env,
                       stdout=subprocess.PIPE, stderr=subprocess.STDOUT, text=True)
    if p.returncode != 0:
        log(p.stdout[-3000:])
        return None
    return os.path.join(tdir, "debug", "verif-replay")


def native(binary, *args, timeout=600):
    p = subprocess.run([binary, *args], stdout=subprocess.PIPE, stderr=subprocess.STDOUT, text=True, timeout=timeout)
    rows = []
    for line in p.stdout.splitlines():
        line = line.strip()
        if line.startswith("{"):
            try:
                rows.append(json.loads(line))
            except Exception:
                pass
    return p.returncode, rows, p.stdout


def find_counterexample(harness, tag, seed):
    binary = build_replay()
    if binary is None:
        return None, "replay binary did not build against this tree"
    try:
        rc, rows, out = native(binary, "find", harness, tag, "400000", str(seed))
    except subprocess.TimeoutExpired:
        return None, "native search timed out"
    for r in rows:
        for f in r.get("failures", []):
            if tag in f["obligation"]:
                return f, None
    return None, "small-scope search found no failing input"


def native_sweep(budget, only=None):
    """(maintenance / self-test) run every harness body natively over the small scope against REPO and
    report the obligations that fail there. Never evidence; used to find out quickly which harnesses a
    changed tree affects before the verifier is run on them."""
    binary = build_replay()
    if binary is None:
        print("replay binary did not build against this tree")
        return 2
    cat = catalogue()
    names = [n for n in cat if only is None or re.search(only, n)]
    hits = {}

    def one(n):
        try:
            rc, rows, out = native(binary, "sweep", n, str(budget), "1", timeout=900)
        except subprocess.TimeoutExpired:
            return n, ["<native sweep timed out>"]
        fails = []
        for r in rows:
            for f in r.get("failures", []):
                fails.append(f["obligation"])
        return n, fails

    base = {}
    bp = os.environ.get("VERIF_SWEEP_BASELINE")
    if bp and os.path.exists(bp):
        base = json.load(open(bp))
    allf = {}
    with cf.ThreadPoolExecutor(max_workers=WORKERS) as ex:
        for n, fails in ex.map(one, names):
            if fails:
                allf[n] = sorted(set(fails))
                new = [f for f in allf[n] if f not in base.get(n, [])]
                if new:
                    hits[n] = new
                    print(f"{n}: {new}")
    print("SWEEP-MAP " + json.dumps(allf))
    print("SWEEP-HITS " + json.dumps(sorted(hits)))
    return 1 if hits else 0


def do_replay(path):
    rec = json.load(open(path))
    print(json.dumps({k: rec[k] for k in ("property", "obligation", "harness") if k in rec}))
    if rec.get("verus"):
        print(rec.get("verifier_output", ""))
        return 1
    if not rec.get("script"):
        print("no concrete input was found for this obligation; verifier output follows")
        print(rec.get("verifier_output", ""))
        return 1
    binary = build_replay()
    if binary is None:
        print("replay binary did not build")
        return 2
    rc, rows, out = native(binary, "replay", rec["harness"], rec["script"])
    print(out)
    return rc


# ----------------------------------------------------------------------------------------------
# deciding a property
# ----------------------------------------------------------------------------------------------
_DISPATCH = {}


def dispatch_extra(reg, cat):
    """C13: harnesses of combinators with a hand-written dynamic-dispatch entry point (go_emit / go_check not
    generated by go_extra!). Through that entry point - the one Boxed / dyn Parser use, and the one every
    harness enters by - the combinator owes its whole contract, so all obligations of these harnesses are
    C13 obligations. -> (harness names, sites without a harness)"""
    if "v" not in _DISPATCH:
        import contracts_map
        names, orphan = set(), []
        for file, line, header in contracts_map.dispatch_sites(REPO):
            pref = contracts_map.harness_prefixes_for(file, header)
            hit = [n for n in reg["harnesses"] if n in cat and any(n.startswith(p) for p in pref)]
            if hit:
                names.update(hit)
            else:
                orphan.append(f"{file}:{line}: {header[:100]}")
        _DISPATCH["v"] = (names, orphan)
    return _DISPATCH["v"]


def harnesses_for(pid, tier, reg, cat):
    """Harnesses whose registered obligations include tags of this property."""
    sel = []
    extra13 = dispatch_extra(reg, cat)[0] if pid == "C13" else set()
    for n, e in reg["harnesses"].items():
        if n not in cat:
            continue
        tags = [t for t in e["tags"] if t.startswith(pid + "/")]
        if n in extra13:
            tags = list(e["tags"])
        if pid == "C20":
            # totality: Kani's automatic checks (panics, overflow, out-of-bounds and mid-character access, invalid
            # pointers) are C20 obligations in EVERY harness, whether or not it carries a C20-tagged postcondition
            tags = tags or ["C20/auto"]
        if pid == "C04":
            # C04: every obligation of a Check-mode twin is a C04 obligation
            if not n.endswith("_check") and "_check_" not in n and not tags:
                continue
        elif not tags:
            continue
        if tier == "quick" and tier_of(n, e) != "quick":
            continue
        if os.environ.get("VERIF_ONLY") and not re.search(os.environ["VERIF_ONLY"], n):
            continue  # maintenance: restrict a self-test run to the named harnesses (never set by the registered commands)
        sel.append(n)
    return sorted(sel)


def obligations_of(pid, name, entry):
    tags = entry["tags"]
    if pid == "C13" and name in _DISPATCH.get("v", (set(), []))[0]:
        return {t: s for t, s in tags.items() if not t.startswith("FW/")}
    if pid == "C04" and (name.endswith("_check") or "_check_" in name):
        return {t: s for t, s in tags.items() if not t.startswith("FW/")}
    return {t: s for t, s in tags.items() if t.startswith(pid + "/")}


def decide(pid, tier, seed):
    import verus_checks
    t0 = time.time()
    cat = catalogue()
    reg = load_registry()
    known = load_known()
    kf = [f for f in known.get("findings", []) if f["property"] == pid]
    # findings of other properties: C04 reads every obligation of a Check-mode twin, including obligations
    # that belong to (and are reported under) another property; a listed finding of that other property is
    # not a mode difference and is left to its own check
    kf_other = [f for f in known.get("findings", []) if f["property"] != pid]
    reported_elsewhere = []
    names = harnesses_for(pid, tier, reg, cat)
    deferred = [n for n in harnesses_for(pid, "thorough", reg, cat) if n not in names] if tier == "quick" else []
    log(f"{pid} [{tier}]: {len(names)} Kani harnesses, {WORKERS} workers")
    results = run_pool(names, cat, tier)

    violations, undecided, known_hit = [], [], []
    n_obl = n_dis = n_dead = 0
    bounded = []
    samples = []
    solver_time = {}
    covers_total = covers_sat = 0
    auto_total = 0
    for n in names:
        r = results[n]
        e = reg["harnesses"][n]
        expected = obligations_of(pid, n, e)
        solver_time[n] = r.get("time")
        if r["verdict"] in ("TIMEOUT", "ERROR", "NONE"):
            why = "time-out" if r["verdict"] == "TIMEOUT" else ("harness no longer compiles against this tree (lost anchor)" if r.get("compile_error") else ("solver ran out of memory / was stopped by the memory watchdog" if r.get("backend_crashed") else ("sources changed while the verifier ran" if r.get("tree_changed_during_run") else "verifier error")))
            undecided.append(f"{n}: {why}")
            continue
        tagged, auto_fail, covers, unwind_fail, unsupported, n_auto = split_checks(r)
        auto_total += n_auto
        if unwind_fail:
            undecided.append(f"{n}: unwinding assertion failed (bound too small for this tree)")
        if unsupported:
            undecided.append(f"{n}: unsupported construct reached: {unsupported[0]['desc'][:120]}")
        fw = [t for t, s in tagged.items() if t.startswith("FW/") and s == "FAILURE"]
        if fw:
            undecided.append(f"{n}: harness-internal assumption failed {fw}")
        reg_covers = {d: st for d, st in e.get("covers", [])}
        for d, s in covers:
            if reg_covers.get(d) not in (None, "SATISFIED"):
                continue  # registered as dead code of this instantiation (reviewed at registration), not counted
            covers_total += 1
            if s == "SATISFIED":
                covers_sat += 1
            else:
                undecided.append(f"{n}: cover '{d}' is {s} (possible vacuity)")
        for tag, was in expected.items():
            now = tagged.get(tag)
            is_bounded = e.get("bounded") is not None
            if now is None:
                undecided.append(f"{n}: registered obligation {tag} not produced by this run (harness drift)")
                continue
            kfm = [f for f in kf if f["obligation"] == tag and (f.get("harness") in (None, n) or re.fullmatch(f.get("harness", ""), n))]
            if not tag.startswith(pid + "/") and [f for f in kf_other if f["obligation"] == tag and (f.get("harness") in (None, n) or re.fullmatch(f.get("harness", ""), n))]:
                reported_elsewhere.append(f"{n}: {tag} ({now})")
                continue
            if now == "FAILURE":
                if kfm:
                    known_hit.append((kfm[0], n))
                elif was == "SUCCESS" or was == "UNREACHABLE":
                    violations.append((n, tag, r))
                    if not is_bounded:
                        n_obl += 1
                else:
                    undecided.append(f"{n}: {tag} fails but was never registered as passing")
            elif now == "UNREACHABLE" and was == "UNREACHABLE":
                n_dead += 1  # dead code of this instantiation (registered as such): neither an obligation nor discharged
            elif now == "UNREACHABLE" and not kfm and not [f for f in kf if re.fullmatch(f.get("harness", ""), n)]:
                undecided.append(f"{n}: {tag} was discharged on the registered tree and is unreachable now (possible vacuity)")
            elif now in ("SUCCESS", "UNREACHABLE"):
                if kfm:
                    pass  # a listed finding that no longer fails: counts as discharged, nothing to print
                if is_bounded:
                    bounded.append({"harness": n, "obligation": tag, "bound": e["bounded"]})
                else:
                    n_obl += 1
                    n_dis += 1
                    if len(samples) < 6:
                        samples.append({"harness": n, "obligation": tag, "status": now, "backend": "kani/cbmc"})
            else:
                undecided.append(f"{n}: {tag} is {now}")
        # Kani's automatic checks (panics, overflow, bounds, pointer validity, invalid drops) in the code under
        # contract. A function that panics (or runs into undefined behaviour) where its contract promises a result
        # does not meet that contract: such a failure is a violation of every property that has obligations on the
        # function (C20 has them on every harness: totality).
        if True:
            real = [c for c in auto_fail if "/verif/kani" not in c["loc"]]
            own = [c for c in auto_fail if "/verif/kani" in c["loc"]]
            if own:
                undecided.append(f"{n}: automatic check failed inside the harness itself: {own[0]['desc'][:100]} @ {own[0]['loc'][:80]}")
            if not is_bounded_name(n, e):
                n_obl += 1
                if not real:
                    n_dis += 1
            was_auto = set(reg["harnesses"][n].get("auto_failures", []))
            if unsupported or unwind_fail:
                # a run that reached a construct the verifier does not support (or left a loop partly unwound)
                # cuts paths and reports follow-up failures inside std: its automatic checks are not believed -
                # the harness is undecided (recorded above), never an alarm
                real = []
            for c in real:
                key = f"{c['name']}: {c['desc']} @ {c['loc']}"
                tag = pid + "/auto." + c["name"]
                kfm = [f for f in kf if f["obligation"] in (tag, pid + "/auto") and f.get("harness") in (None, n) and f.get("match", "") in key]
                if kfm:
                    known_hit.append((kfm[0], n))
                    n_obl -= 0
                elif key in was_auto:
                    undecided.append(f"{n}: automatic check {c['name']} fails and was failing when registered")
                else:
                    violations.append((n, tag + " " + c["desc"][:80], r))

    # thorough: the same harness bodies run natively over the small scope against the real code (VERIF_SEED
    # seeds the sampled half). Never evidence of proof; an execution in which an obligation of this property
    # fails is a concrete counterexample and is reported like a verifier failure (unless it is a listed finding
    # or the verifier already reported it).
    native_cross = None
    if tier == "thorough":
        native_cross = {"harnesses": 0, "executions": 0, "failed_obligations": []}
        binary = build_replay()
        if binary is None:
            undecided.append("native cross-check: replay binary did not build against this tree")
        else:
            def _one(n):
                try:
                    rc_, rows, _o = native(binary, "sweep", n, str(int(os.environ.get("VERIF_NATIVE_BUDGET", "40000"))), str(seed), timeout=900)
                    return n, rows
                except subprocess.TimeoutExpired:
                    return n, None
            with cf.ThreadPoolExecutor(max_workers=WORKERS) as ex:
                for n, rows in ex.map(_one, names):
                    if rows is None:
                        undecided.append(f"{n}: native cross-check timed out")
                        continue
                    native_cross["harnesses"] += 1
                    e = reg["harnesses"][n]
                    for r_ in rows:
                        native_cross["executions"] += r_.get("executions", 0)
                        for f in r_.get("failures", []):
                            msg = f["obligation"]
                            m = TAG_RE.match(msg)
                            if f.get("panic"):
                                tag = pid + "/native.panic"  # a panic in the code under contract: see the automatic checks above
                            elif m:
                                tag = m.group(0)
                            else:
                                continue
                            if tag not in obligations_of(pid, n, e) and not tag.endswith("/native.panic"):
                                continue
                            if [k for k in kf if k["obligation"] == tag and (k.get("harness") in (None, n) or re.fullmatch(k.get("harness", ""), n))]:
                                continue
                            if [k for k in kf_other if k["obligation"] == tag]:
                                continue
                            native_cross["failed_obligations"].append(f"{n}: {msg[:120]} script={f['script']}")
                            if not any(v_[0] == n and v_[1].split(" ")[0] == tag for v_ in violations):
                                violations.append((n, tag, {"raw_tail": f"native execution of the harness body against the real code: {msg} with choices {f['script']}"}))

    frame = None
    if pid == "C13":
        import assumptions as _as
        sites, unreviewed = _as.frame_scan(REPO)
        frame = {"interior_mutability_sites": sites, "unreviewed": unreviewed}
        for u in unreviewed:
            undecided.append(f"frame: interior-mutability site not in the reviewed list (a parser could keep state across parses through it): {u}")
        names13, orphan = dispatch_extra(reg, cat)
        frame["hand_written_dispatch_entry_points"] = {"harnesses_counted_in_full": sorted(names13), "without_a_harness": orphan}
        for o in orphan:
            undecided.append(f"dispatch: hand-written go_emit/go_check with no harness on its combinator (results through boxed()/dyn may differ from the static path): {o}")

    # Verus part of the property
    v = verus_checks.run(pid, tier, REPO, WORK)
    for o in v["obligations"]:
        if o["status"] == "verified":
            n_obl += 1
            n_dis += 1
            if len(samples) < 10:
                samples.append({"function": o["name"], "status": "verified", "backend": "verus/z3"})
        elif o["status"] == "failed":
            violations.append(("verus:" + o["name"], f"{pid}/verus.{o['name']}", {"raw_tail": o.get("message", ""), "verus": True}))
        else:
            undecided.append(f"verus {o['name']}: {o['status']} {o.get('message', '')[:200]}")
    for u in v.get("undecided", []):
        undecided.append("verus: " + u)

    # thorough: run the public-API witness of every recorded finding that was hit, to show the defect on the real
    # code (only against /repo itself: the witness crate depends on it by path)
    witness_runs = None
    if tier == "thorough" and known_hit and not SCRATCH:
        witness_runs = []
        seen_w = set()
        for f, _n in known_hit:
            for w in re.findall(r"/verif/witness/src/bin/(\w+)\.rs", f["what"]):
                if w in seen_w:
                    continue
                seen_w.add(w)
                try:
                    p_ = subprocess.run(["cargo", "run", "--offline", "-q", "--bin", w], cwd=os.path.join(VERIF, "witness"),
                                        env=dict(os.environ, CARGO_NET_OFFLINE="true", CARGO_TARGET_DIR=os.path.join(WORK, "witness-target")),
                                        stdout=subprocess.PIPE, stderr=subprocess.STDOUT, text=True, timeout=900)
                    tail = [l for l in p_.stdout.strip().split("\n") if not l.startswith("warning")][-4:]
                    witness_runs.append({"finding": f["obligation"], "witness": w, "exit": p_.returncode, "shows_the_defect": p_.returncode != 0, "output": tail})
                except Exception as ex_:  # noqa: BLE001
                    witness_runs.append({"finding": f["obligation"], "witness": w, "error": str(ex_)[:200]})

    # ---- report
    rc = 0
    printed = set()
    for f, n in known_hit:
        key = f["obligation"]
        if key in printed:
            continue
        printed.add(key)
        print(f"KNOWN-FINDING: property={pid} {f['obligation']}: {f['what']}")
    viol_count = 0
    seen = set()
    for n, tag, r in violations:
        if tag in seen:
            continue
        seen.add(tag)
        viol_count += 1
        os.makedirs(os.path.join(OUTDIR, "replays"), exist_ok=True)
        path = os.path.join(OUTDIR, "replays", f"{pid}-{re.sub(r'[^A-Za-z0-9_.-]', '_', tag)[:80]}.json")
        rec = {"property": pid, "obligation": tag, "harness": n, "verifier_output": r.get("raw_tail", "")[-2500:]}
        suffix = ""
        if r.get("verus"):
            rec["verus"] = True
            suffix = " no-failing-input-found"
        else:
            cex, why = find_counterexample(n, tag.split(" ")[0] if "/auto." not in tag else "PANIC", seed)
            if cex:
                rec["script"] = cex["script"]
                rec["native_obligation"] = cex["obligation"]
                rec["how"] = f"python3 /verif/check.py --replay {path}"
            else:
                rec["note"] = why
                suffix = " no-failing-input-found"
        json.dump(rec, open(path, "w"), indent=1)
        print(f"VIOLATION property={pid} replay={path}{suffix}")
        print(f"  obligation {tag} (harness {n}) was discharged on the registered tree and fails now")
        rc = 1
    if rc == 0 and undecided:
        rc = 2
    for u in undecided:
        print("UNDECIDED:", u)
    if n_obl == 0 and rc == 0:
        print("UNDECIDED: no obligation was generated (vacuous run)")
        rc = 2

    # ---- evidence
    import assumptions
    ev = {
        "property_id": pid,
        "tier": tier,
        "seed": seed,
        "level": "proof",
        "coverage": {
            "obligations": n_obl,
            "discharged": n_dis,
            "checker_cmd": f"python3 /verif/check.py {pid} --tier {tier}",
            "trusted_base": assumptions.TRUSTED_BASE,
            "samples": samples,
            "exhaustive": False,
            "explanation": assumptions.EXPLAIN.get(pid, ""),
            "kani_harnesses": len(names),
            "kani_harnesses_run": names,
            "harnesses_left_to_the_thorough_tier": deferred,
            "kani_automatic_checks_total": auto_total,
            "covers_total": covers_total,
            "covers_satisfied": covers_sat,
            "solver_time_s": solver_time,
            "tree_hash": tree_hash(),
            "harness_results_reused_from_identical_tree": sorted(n for n in names if results[n].get("cached")),
            "reuse_note": "a harness result is reused only when /repo/src, Cargo.toml/lock, the harness sources and the tool version hash to the same value as when this machinery produced it (set VERIF_NO_CACHE=1 to force re-verification)",
            "verus": {"functions": [o["name"] for o in v["obligations"]], "time_s": v.get("time_s"), "extraction": v.get("extraction", [])},
            "obligations_dead_in_their_instantiation_not_counted": n_dead,
            "native_small_scope_cross_check": native_cross,
            "bounded_obligations": bounded,
            "bounded_note": "bounded obligations are listed with their bound and are NOT counted in obligations/discharged",
            "functions_under_contract": assumptions.functions_under_contract(pid, names, reg, REPO),
            "known_findings_hit": [f["obligation"] for f, _ in known_hit],
            "known_findings_witnesses_run": witness_runs,
            "obligations_left_to_their_own_property": reported_elsewhere,
            "undecided": undecided,
            "uncovered_clauses": assumptions.UNCOVERED.get(pid, []),
            "assumptions_scan": assumptions.scan(VERIF),
            "frame_scan": frame,
            "emitted_list_uses": assumptions.stack_discipline(REPO) if pid == "C05" else None,
        },
        "assumptions": assumptions.ASSUMPTIONS + assumptions.PER_PROPERTY.get(pid, []),
        "wall_s": round(time.time() - t0, 1),
        "violations": viol_count,
    }
    os.makedirs(os.path.join(OUTDIR, "evidence"), exist_ok=True)
    json.dump(ev, open(os.path.join(OUTDIR, "evidence", pid + ".json"), "w"), indent=1)
    print(f"{pid} [{tier}]: obligations={n_obl} discharged={n_dis} bounded(not counted)={len(bounded)} "
          f"known-findings={len(printed)} violations={viol_count} undecided={len(undecided)} wall={ev['wall_s']}s")
    return rc


def is_bounded_name(n, e):
    return e.get("bounded") is not None


def main():
    ap = argparse.ArgumentParser()
    ap.add_argument("prop", nargs="?")
    ap.add_argument("--tier", default=os.environ.get("VERIF_TIER", "quick"))
    ap.add_argument("--replay")
    ap.add_argument("--register", action="store_true")
    ap.add_argument("--only")
    ap.add_argument("--selftest", action="store_true")
    ap.add_argument("--sweep", type=int, help="(maintenance) native small-scope sweep of every harness with this budget")
    a = ap.parse_args()
    seed = int(os.environ.get("VERIF_SEED", "0") or 0)
    os.makedirs(WORK, exist_ok=True)
    if a.replay:
        sys.exit(do_replay(a.replay))
    if a.register:
        sys.exit(register(a.only))
    if a.sweep:
        sys.exit(native_sweep(a.sweep, a.only))
    if not a.prop:
        ap.print_help()
        sys.exit(2)
    sys.exit(decide(a.prop, a.tier, seed))


if __name__ == "__main__":
    main()
