#!/usr/bin/env python3
"""seed_record.py [seeded-dir]: fold the outcome of seed_eval.sh (seeded/<name>/check_<Cxx>.txt) into
seeded/<name>/meta.json (`detected_by`) and print the table of DESIGN 9.5."""
import json
import os
import re
import sys

V = os.path.dirname(os.path.abspath(__file__))
root = sys.argv[1] if len(sys.argv) > 1 else os.path.join(V, "seeded")
rows = []
for name in sorted(os.listdir(root)):
    d = os.path.join(root, name)
    mp = os.path.join(d, "meta.json")
    if not os.path.isfile(mp):
        continue
    meta = json.load(open(mp))
    pid = name.split("-")[0]
    cp = os.path.join(d, f"check_{pid}.txt")
    det = meta.get("detected_by")
    if os.path.exists(cp):
        txt = open(cp).read()
        obl = sorted(set(re.findall(r"obligation (\S+).*? \(harness ([\w:]+)\)", txt)))
        ex = re.findall(r"exit=(\d+)(.*)", txt)
        code = int(ex[-1][0]) if ex else None
        how = ex[-1][1].strip() if ex else ""
        und = re.findall(r"UNDECIDED: (.*)", txt)
        if code == 1 and obl:
            tier = "thorough" if "tier thorough" in how else "quick"
            det = {"check": f"python3 /verif/check.py {pid} --tier {tier}", "result": "VIOLATION" if tier == "quick" else "VIOLATION (thorough tier only)", "obligations": [f"{o} ({h})" for o, h in obl][:8], "how_run": how}
        elif code == 2:
            det = {"check": f"python3 /verif/check.py {pid} --tier quick", "result": "UNDECIDED (exit 2, no alarm)", "why": und[:3], "how_run": how}
        elif code == 0:
            det = {"check": f"python3 /verif/check.py {pid} --tier quick", "result": "NOT DETECTED (exit 0)", "how_run": how}
        meta["detected_by"] = det
        json.dump(meta, open(mp, "w"), indent=1)
    res = (det or {}).get("result", "not evaluated") if isinstance(det, dict) else "not evaluated"
    first = ""
    if isinstance(det, dict) and det.get("obligations"):
        first = det["obligations"][0]
    elif isinstance(det, dict) and det.get("why"):
        first = det["why"][0][:90]
    elif isinstance(det, dict) and det.get("note"):
        first = det["note"]
    rows.append((name, res, first))
print("| seeded change | outcome of the property's check | first obligation reported / reason |")
print("|---|---|---|")
for n, r, f in rows:
    print(f"| {n} | {r} | {f} |")
c = {}
for _, r, _ in rows:
    c[r] = c.get(r, 0) + 1
print()
print(c)
