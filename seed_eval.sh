#!/bin/bash
# seed_eval.sh <seed-name> [tier]: evaluate the property's check against a seeded change, in a scratch
# worktree of the repository (never in /repo). Step 1: native small-scope sweep of all harness bodies on the
# changed tree (seconds) to learn which harnesses are affected. Step 2: the property's check (Kani) on the
# changed tree - restricted to the affected harnesses when step 1 found some (the registered command runs a
# superset of them, so a VIOLATION here is a VIOLATION there), the full check otherwise.
V=$(cd $(dirname $0) && pwd)
name=$1; tier=${2:-quick}
pid=${name%%-*}
base=${VP_RUN_REPO:-/repo}
wt=/tmp/seedrun/$name
mkdir -p /tmp/seedrun
git -C $base worktree remove --force $wt 2>/dev/null
git -C $base worktree add --detach $wt HEAD >/dev/null 2>&1 || { echo "worktree failed"; exit 2; }
git -C $wt apply $V/seeded/$name/patch.diff || { echo "patch does not apply"; exit 2; }
out=$V/seeded/$name
# failures of the unchanged tree (the recorded findings) are not hits of the seeded change
if [ ! -s /tmp/seedrun/baseline.json ]; then
  (cd $V && VERIF_REPO=$base VERIF_WORK=/tmp/seedrun/work_base python3 check.py --sweep ${SWEEP:-30000} | grep '^SWEEP-MAP' | sed 's/^SWEEP-MAP //' > /tmp/seedrun/baseline.json)
fi
export VERIF_SWEEP_BASELINE=/tmp/seedrun/baseline.json
export VERIF_REPO=$wt VERIF_WORK=/tmp/seedrun/work_$name VERIF_WORKERS=${VERIF_WORKERS:-8}
(cd $V && python3 check.py --sweep ${SWEEP:-30000} > $out/sweep.txt 2>$out/sweep.err)
hits=$(grep '^SWEEP-HITS' $out/sweep.txt | sed 's/^SWEEP-HITS //' | python3 -c "import json,sys; l=json.load(sys.stdin); print('^('+'|'.join(l)+')$' if l else '')")
if [ -n "$hits" ]; then
  (cd $V && VERIF_ONLY="$hits" python3 check.py $pid --tier $tier > $out/check_$pid.txt 2>$out/check_$pid.err; echo "exit=$? (tier $tier, restricted to the harnesses the native sweep flagged: $hits)" >> $out/check_$pid.txt)
  if ! grep -q "^VIOLATION" $out/check_$pid.txt && [ "$tier" = quick ]; then
    # the flagged harnesses may belong to the thorough tier only (larger bounds, slow ones)
    (cd $V && VERIF_ONLY="$hits" python3 check.py $pid --tier thorough > $out/check_${pid}_thorough.txt 2>$out/check_${pid}_thorough.err; echo "exit=$? (tier thorough, restricted to the harnesses the native sweep flagged: $hits)" >> $out/check_${pid}_thorough.txt)
    if grep -q "^VIOLATION" $out/check_${pid}_thorough.txt; then cp $out/check_${pid}_thorough.txt $out/check_$pid.txt; fi
  fi
fi
if [ -z "$hits" ] || { ! grep -q "^VIOLATION" $out/check_$pid.txt && grep -q "no obligation was generated" $out/check_$pid.txt; }; then
  (cd $V && python3 check.py $pid --tier $tier > $out/check_$pid.txt 2>$out/check_$pid.err; echo "exit=$? (tier $tier, full check; native sweep flagged nothing the restricted runs could decide)" >> $out/check_$pid.txt)
fi
git -C $base worktree remove --force $wt
rm -rf /tmp/seedrun/work_$name
echo "== $name"; grep -E "VIOLATION|obligation .* fails now|exit=|UNDECIDED" $out/check_$pid.txt | head -8
