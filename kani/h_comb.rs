// Contracts of the sequencing / choice / option / lookahead combinators, each proved for the real
// `go` body with contract stubs as children, from a symbolic entry state, on a symbolic input of
// unbounded length. Tags: Cxx/<combinator>.<obligation>.

use super::fw::*;
use crate::error::Error;
use crate::prelude::*;
use crate::private::{Check, Emit, Mode};
use crate::Parser;

pub trait VEr: VE + Error<'static, SymIn<u8>> + Error<'static, SymIn<char>> {}
impl<E: VE + Error<'static, SymIn<u8>> + Error<'static, SymIn<char>>> VEr for E {}

/// Fold of the priority rule over the offers of the given children, in call order.
pub fn alt_fold(s0: &S0, ls: &[&CallLog]) -> Option<(usize, u16)> {
    let mut exp = s0.alt;
    let mut k = 0;
    while k < ls.len() {
        if ls[k].called && ls[k].offered {
            exp = offer_spec(exp, ls[k].fail_pos, ls[k].fail_id);
        }
        k += 1;
    }
    exp
}

// ------------------------------------------------------------------------------------------ or
pub fn h_or<M: VMode, Er: VEr>() {
    run::<u8, Er, (), _>(|inp, s0| {
        let anyp = |k| anyp::<SymIn<u8>, X<Er>>(k);
        let p = anyp(0).or(anyp(1));
        let r = p.gov::<M>(inp);
        let s = snap(inp);
        let (a, b) = (lg(inp, 0), lg(inp, 1));
        vassert!(a.called && a.calls == 1, "C01/or.first-alternative-tried-exactly-once");
        vassert!(a.entry_pos == s0.pos, "C01/or.first-alternative-starts-at-entry-position");
        if a.ok {
            vcover!(true, "or: first alternative succeeds");
            vassert!(!b.called, "C01/or.commits-to-first-success");
            vassert!(ok_with::<M, _>(&r, a.out), "C01/or.returns-output-of-first");
            vassert!(s.pos == a.exit_pos, "C01/or.consumes-what-first-consumed");
            vassert!(SecSpec::pre(&s0).child(0, &a).holds(&s, Er::ZST), "C05/or.kept-alternative-emissions-exact");
            vassert!(s.believed == s.pos, "C18/or.inspector-at-position-after-success");
        } else {
            vassert!(b.called && b.calls == 1, "C01/or.second-tried-after-first-fails");
            vassert!(b.entry_pos == s0.pos, "C01/or.second-alternative-starts-at-entry-position");
            vassert!(b.entry_sec == s0.nsec, "C05/or.abandoned-alternative-leaves-no-emissions");
            vassert!(b.entry_believed == s0.pos, "C18/or.inspector-rewound-before-second-alternative");
            if b.ok {
                vcover!(true, "or: second alternative succeeds");
                vassert!(ok_with::<M, _>(&r, b.out), "C01/or.returns-output-of-second");
                vassert!(s.pos == b.exit_pos, "C01/or.consumes-what-second-consumed");
                vassert!(SecSpec::pre(&s0).child(1, &b).holds(&s, Er::ZST), "C05/or.kept-second-emissions-exact");
                vassert!(s.believed == s.pos, "C18/or.inspector-at-position-after-second");
            } else {
                vcover!(true, "or: both alternatives fail");
                vassert!(r.is_err(), "C01/or.fails-when-all-alternatives-fail");
                vassert!(s.alt.is_some(), "C20/or.failure-leaves-pending-error");
                vassert!(SecSpec::pre(&s0).prefix_of(&s, Er::ZST), "C05/or.failure-keeps-earlier-emissions");
            }
        }
        if !Er::ZST {
            vassert!(Offers::of(&s0, &[&a, &b]).matches(&s), "C06/or.pending-error-is-furthest-offer");
        }
    });
}

// -------------------------------------------------------------------------------- sequences
/// Shared specification of the two-element sequence forms. `shape`: 0 = then, 1 = ignore_then,
/// 2 = then_ignore.
fn seq2_spec<M: VMode, Er: VEr>(s0: &S0, s: &Snap, a: &CallLog, b: &CallLog, ok: bool, out_ok: bool) -> [bool; 10] {
    let mut v = [true; 10];
    // 0: a tried once from entry
    v[0] = a.called && a.calls == 1 && a.entry_pos == s0.pos && a.entry_sec == s0.nsec;
    if !a.ok {
        v[1] = !b.called; // first failure propagates, right side never runs
        v[2] = !ok;
        v[3] = s.alt.is_some();
        v[4] = SecSpec::pre(s0).prefix_of(s, Er::ZST);
    } else {
        // b runs exactly where a stopped, seeing a's emissions
        v[5] = b.called && b.calls == 1 && b.entry_pos == a.exit_pos;
        v[6] = b.entry_sec == s0.nsec + a.emitted && b.entry_believed == a.exit_pos;
        if b.ok {
            v[7] = ok && out_ok && s.pos == b.exit_pos;
            v[8] = SecSpec::pre(s0).child(0, a).child(1, b).holds(s, Er::ZST);
            v[9] = s.believed == s.pos;
        } else {
            v[2] = !ok;
            v[3] = s.alt.is_some();
            v[4] = SecSpec::pre(s0).prefix_of(s, Er::ZST);
        }
    }
    v
}
macro_rules! seq2_asserts {
    ($v:expr, $s0:expr, $s:expr, $a:expr, $b:expr, $zst:expr) => {
        vassert!($v[0], "C01/seq.left-runs-first-from-entry");
        vassert!($v[1], "C01/seq.first-failure-propagates-right-not-run");
        vassert!($v[2], "C01/seq.fails-iff-a-part-fails");
        vassert!($v[3], "C20/seq.failure-leaves-pending-error");
        vassert!($v[4], "C05/seq.failure-keeps-earlier-emissions");
        vassert!($v[5], "C01/seq.right-runs-where-left-stopped");
        vassert!($v[6], "C18/seq.right-sees-left-emissions-and-inspector-at-position");
        vassert!($v[7], "C01/seq.output-and-position-of-both-parts");
        vassert!($v[8], "C05/seq.emissions-of-both-parts-in-order");
        vassert!($v[9], "C18/seq.inspector-at-position-after-success");
        if !$zst {
            vassert!(Offers::of(&$s0, &[&$a, &$b]).matches(&$s), "C06/seq.pending-error-is-furthest-offer");
        }
        vcover!($a.ok && $b.called && $b.ok, "seq: both succeed");
        vcover!($a.ok && $b.called && !$b.ok, "seq: right fails");
        vcover!(!$a.ok, "seq: left fails");
    };
}
pub fn h_then<M: VMode, Er: VEr>() {
    run::<u8, Er, (), _>(|inp, s0| {
        let anyp = |k| anyp::<SymIn<u8>, X<Er>>(k);
        let r = anyp(0).then(anyp(1)).gov::<M>(inp);
        let s = snap(inp);
        let (a, b) = (lg(inp, 0), lg(inp, 1));
        let v = seq2_spec::<M, Er>(&s0, &s, &a, &b, r.is_ok(), ok_with::<M, _>(&r, (a.out, b.out)));
        seq2_asserts!(v, s0, s, a, b, Er::ZST);
    });
}
pub fn h_ignore_then<M: VMode, Er: VEr>() {
    run::<u8, Er, (), _>(|inp, s0| {
        let anyp = |k| anyp::<SymIn<u8>, X<Er>>(k);
        let r = anyp(0).ignore_then(anyp(1)).gov::<M>(inp);
        let s = snap(inp);
        let (a, b) = (lg(inp, 0), lg(inp, 1));
        let v = seq2_spec::<M, Er>(&s0, &s, &a, &b, r.is_ok(), ok_with::<M, _>(&r, b.out));
        seq2_asserts!(v, s0, s, a, b, Er::ZST);
    });
}
pub fn h_then_ignore<M: VMode, Er: VEr>() {
    run::<u8, Er, (), _>(|inp, s0| {
        let anyp = |k| anyp::<SymIn<u8>, X<Er>>(k);
        let r = anyp(0).then_ignore(anyp(1)).gov::<M>(inp);
        let s = snap(inp);
        let (a, b) = (lg(inp, 0), lg(inp, 1));
        let v = seq2_spec::<M, Er>(&s0, &s, &a, &b, r.is_ok(), ok_with::<M, _>(&r, a.out));
        seq2_asserts!(v, s0, s, a, b, Er::ZST);
    });
}

// ---------------------------------------------------------------------------------- or_not
pub fn h_or_not<M: VMode, Er: VEr>() {
    run::<u8, Er, (), _>(|inp, s0| {
        let anyp = |k| anyp::<SymIn<u8>, X<Er>>(k);
        let r = anyp(0).or_not().gov::<M>(inp);
        let s = snap(inp);
        let a = lg(inp, 0);
        vassert!(a.called && a.calls == 1 && a.entry_pos == s0.pos, "C01/or_not.child-tried-once-from-entry");
        vassert!(r.is_ok(), "C01/or_not.never-fails");
        if a.ok {
            vcover!(true, "or_not: child succeeds");
            vassert!(ok_with::<M, _>(&r, Some(a.out)), "C01/or_not.some-of-child-output");
            vassert!(s.pos == a.exit_pos, "C01/or_not.consumes-what-child-consumed");
            vassert!(SecSpec::pre(&s0).child(0, &a).holds(&s, Er::ZST), "C05/or_not.kept-child-emissions-exact");
        } else {
            vcover!(true, "or_not: child fails");
            vassert!(ok_with::<M, Option<u16>>(&r, None), "C01/or_not.none-when-child-fails");
            vassert!(s.pos == s0.pos, "C01/or_not.consumes-nothing-when-child-fails");
            vassert!(SecSpec::pre(&s0).holds(&s, Er::ZST), "C05/or_not.abandoned-child-leaves-no-emissions");
        }
        vassert!(s.believed == s.pos, "C18/or_not.inspector-at-position");
        if !Er::ZST {
            vassert!(Offers::of(&s0, &[&a]).matches(&s), "C06/or_not.pending-error-is-furthest-offer");
        }
    });
}

// ------------------------------------------------------------------------------------- not
pub fn h_not<M: VMode, Er: VEr>() {
    run::<u8, Er, (), _>(|inp, s0| {
        let anyp = |k| anyp::<SymIn<u8>, X<Er>>(k);
        let r = anyp(0).not().gov::<M>(inp);
        let s = snap(inp);
        let a = lg(inp, 0);
        vassert!(a.called && a.calls == 1 && a.entry_pos == s0.pos, "C01/not.child-tried-once-from-entry");
        if a.ok {
            vcover!(true, "not: child succeeds");
            vassert!(r.is_err(), "C01/not.fails-when-child-succeeds");
            vassert!(s.alt.is_some(), "C20/not.failure-leaves-pending-error");
            vassert!(SecSpec::pre(&s0).prefix_of(&s, Er::ZST), "C05/not.failure-keeps-earlier-emissions");
        } else {
            vcover!(true, "not: child fails");
            vassert!(r.is_ok(), "C01/not.succeeds-when-child-fails");
            vassert!(s.pos == s0.pos, "C01/not.lookahead-consumes-nothing");
            vassert!(SecSpec::pre(&s0).holds(&s, Er::ZST), "C05/not.abandoned-child-leaves-no-emissions");
            vassert!(s.believed == s.pos, "C18/not.inspector-at-position");
        }
    });
}

// ---------------------------------------------------------------------------------- and_is
pub fn h_and_is<M: VMode, Er: VEr>() {
    run::<u8, Er, (), _>(|inp, s0| {
        let anyp = |k| anyp::<SymIn<u8>, X<Er>>(k);
        let r = anyp(0).and_is(anyp(1)).gov::<M>(inp);
        let s = snap(inp);
        let (a, b) = (lg(inp, 0), lg(inp, 1));
        vassert!(a.called && a.calls == 1 && a.entry_pos == s0.pos, "C01/and_is.left-tried-once-from-entry");
        if !a.ok {
            vcover!(true, "and_is: left fails");
            vassert!(!b.called && r.is_err(), "C01/and_is.fails-when-left-fails");
        } else {
            vassert!(b.called && b.calls == 1 && b.entry_pos == s0.pos, "C01/and_is.lookahead-runs-from-entry-position");
            vassert!(b.entry_believed == s0.pos, "C18/and_is.inspector-rewound-for-lookahead");
            if b.ok {
                vcover!(true, "and_is: both succeed");
                vassert!(ok_with::<M, _>(&r, a.out), "C01/and_is.returns-left-output");
                vassert!(s.pos == a.exit_pos, "C01/and_is.consumes-what-left-consumed");
                vassert!(s.believed == s.pos, "C18/and_is.inspector-at-position-after-success");
                // The kept sub-parser's emissions must survive; whether the (successful) lookahead's own
                // emissions are reported is not fixed by the property, both are accepted.
                vassert!(
                    SecSpec::pre(&s0).child(0, &a).holds(&s, Er::ZST)
                        || SecSpec::pre(&s0).child(0, &a).child(1, &b).holds(&s, Er::ZST),
                    "C05/and_is.kept-left-emissions-not-dropped"
                );
            } else {
                vcover!(true, "and_is: lookahead fails");
                vassert!(r.is_err(), "C01/and_is.fails-when-lookahead-fails");
            }
        }
        if r.is_err() {
            vassert!(s.alt.is_some(), "C20/and_is.failure-leaves-pending-error");
            vassert!(SecSpec::pre(&s0).prefix_of(&s, Er::ZST), "C05/and_is.failure-keeps-earlier-emissions");
        }
        if !Er::ZST {
            vassert!(Offers::of(&s0, &[&a, &b]).matches(&s), "C06/and_is.pending-error-is-furthest-offer");
        }
    });
}

// ---------------------------------------------------------------------------------- rewind
pub fn h_rewind<M: VMode, Er: VEr>() {
    run::<u8, Er, (), _>(|inp, s0| {
        let anyp = |k| anyp::<SymIn<u8>, X<Er>>(k);
        let r = anyp(0).rewind().gov::<M>(inp);
        let s = snap(inp);
        let a = lg(inp, 0);
        vassert!(a.called && a.calls == 1 && a.entry_pos == s0.pos, "C01/rewind.child-tried-once-from-entry");
        if a.ok {
            vcover!(true, "rewind: child succeeds");
            vassert!(ok_with::<M, _>(&r, a.out), "C01/rewind.returns-child-output");
            vassert!(s.pos == s0.pos, "C01/rewind.lookahead-consumes-nothing");
            vassert!(s.believed == s.pos, "C18/rewind.inspector-at-position");
            vassert!(SecSpec::pre(&s0).child(0, &a).holds(&s, Er::ZST), "C05/rewind.kept-child-emissions-not-dropped");
        } else {
            vcover!(true, "rewind: child fails");
            vassert!(r.is_err(), "C01/rewind.fails-when-child-fails");
            vassert!(s.alt.is_some(), "C20/rewind.failure-leaves-pending-error");
            vassert!(SecSpec::pre(&s0).prefix_of(&s, Er::ZST), "C05/rewind.failure-keeps-earlier-emissions");
        }
        if !Er::ZST {
            vassert!(Offers::of(&s0, &[&a]).matches(&s), "C06/rewind.pending-error-is-furthest-offer");
        }
    });
}

harnesses! {
    or_emit = h_or::<Emit, VErr>;
    or_check = h_or::<Check, VErr>;
    or_emit_zst = h_or::<Emit, VZ>;
    then_emit = h_then::<Emit, VErr>;
    then_check = h_then::<Check, VErr>;
    ignore_then_emit = h_ignore_then::<Emit, VErr>;
    ignore_then_check = h_ignore_then::<Check, VErr>;
    then_ignore_emit = h_then_ignore::<Emit, VErr>;
    then_ignore_check = h_then_ignore::<Check, VErr>;
    or_not_emit = h_or_not::<Emit, VErr>;
    or_not_check = h_or_not::<Check, VErr>;
    not_emit = h_not::<Emit, VErr>;
    not_check = h_not::<Check, VErr>;
    and_is_emit = h_and_is::<Emit, VErr>;
    and_is_check = h_and_is::<Check, VErr>;
    rewind_emit = h_rewind::<Emit, VErr>;
    rewind_check = h_rewind::<Check, VErr>;
}
