// C09: contract of the Pratt driver `Pratt::pratt_go` (src/pratt.rs), proved for the real loop with a
// contract stub as the OPERATOR TABLE (any table - tuple, Vec, boxed - is an `Operator`; the tables and the
// single operators have their own contracts in h_pratt.rs) and a contract stub as the atom.
//
// The stub table may do anything an operator table may: at each attempt it applies or not; an applying
// prefix / infix operator consumes its token and asks the driver (through the callback) for an operand at
// a binding power of its choice; an operator that does not apply, or whose operand is missing, leaves the
// input where the attempt started. What the DRIVER owes (from the statement: "exactly the tree of the
// textbook binding-power algorithm", "an operator whose right operand is missing is left unconsumed",
// "tokens in order"):
//  * an expression starts with a prefix attempt, else an atom, at the expression's start;
//  * the operand asked for by an operator is parsed at exactly the power the operator asked for, and every
//    postfix / infix attempt inside that operand is made at that power (the operators compare their own power
//    against it - proved in h_pratt.rs - so this is what makes "captures an operand only if it binds at least
//    as tightly" true); the outermost expression is parsed at power 0;
//  * at each position postfix operators are tried before infix operators, each with the expression built so
//    far as left operand, and the loop continues after an operator applied;
//  * when nothing applies the expression ends where that round of attempts started, and its value is the
//    value built so far.
// Bounded: at most 1 operator application in total (2 in the thorough variant), operands nest one level deep (an operand's own operators
// are postfix ones; prefix / infix operators inside an operand are not applied by the stub) - two levels in
// `pratt_loop_prefix_in_operand_emit_b2` (restricted to the shape `atom infix (prefix atom)`; the unrestricted two-level
// variant did not finish: 6 GB after 11 minutes), which is what shows an operand parsed at a power other than the one asked for
// when the operator itself sits inside an operand.

use super::fw::*;
use crate::input::{self, InputRef};
use crate::inspector::Inspector;
use crate::pratt::Operator;
use crate::prelude::*;
use crate::private::{Check, Emit, Mode, PResult};
use crate::Parser;

type I8 = SymIn<u8>;
type E8 = X<VS>;
type CP<'p> = input::Checkpoint<'static, 'p, I8, usize>;
type CU<'p> = input::Cursor<'static, 'p, I8>;

pub const LV: usize = 3;
/// Ghost bookkeeping of the stub table (lives in the harness frame; the stub holds a raw pointer to it).
pub struct OpGhost {
    pub depth: usize,
    /// the power each active level is being parsed at (level 0 = the outermost expression)
    pub power: [u32; LV],
    /// the value built so far at each level (None = not yet known to the table: an atom's output)
    pub val: [Option<u16>; LV],
    /// last attempt at each level: 0 none, 1 prefix, 2 postfix, 3 infix; where; whether it applied
    pub last_kind: [u8; LV],
    pub last_pos: [usize; LV],
    pub last_applied: [bool; LV],
    pub apps: usize,
    pub attempts: usize,
    pub prefix_attempts: usize,
    pub first_prefix_pos: usize,
    pub end_pos0: usize,
    pub infix_applied: usize,
    pub postfix_applied: usize,
    pub prefix_applied: usize,
    pub nested_seen: bool,
    pub deepest: usize,
}
impl OpGhost {
    pub fn new() -> Self {
        OpGhost {
            depth: 0,
            power: [0; LV],
            val: [None; LV],
            last_kind: [0; LV],
            last_pos: [0; LV],
            last_applied: [false; LV],
            apps: 0,
            attempts: 0,
            prefix_attempts: 0,
            first_prefix_pos: 0,
            end_pos0: 0,
            infix_applied: 0,
            postfix_applied: 0,
            prefix_applied: 0,
            nested_seen: false,
            deepest: 0,
        }
    }
}
#[derive(Clone, Copy)]
pub struct AnyOp {
    pub g: *mut OpGhost,
    /// harness bound: operator applications in total
    pub max_apps: usize,
    /// harness bound: levels of operands an applying prefix / infix operator may open (1 = operands of the
    /// outermost expression only)
    pub max_depth: usize,
    /// harness bound on the SHAPE of the expression: false = any; true = only `atom infix (prefix atom)`: at the
    /// outermost level only an infix operator may apply, inside its right operand only a prefix operator
    pub chain: bool,
}
impl AnyOp {
    fn g(&self) -> &mut OpGhost {
        // SAFETY (harness): points at a local of the harness frame that outlives the parse
        unsafe { &mut *self.g }
    }
    /// the stub operator consumes its token(s): at least one, anything up to the end
    fn consume(inp: &mut InputRef<'static, '_, I8, E8>) -> bool {
        let len = inp.state.len;
        let pos = inp.cursor;
        if pos >= len {
            return false;
        }
        let adv = 1 + ch::below(len - pos - 1);
        inp.cursor = pos + adv;
        inp.state.believed = inp.state.believed.wrapping_add(adv);
        true
    }
    /// the left operand handed over (`v`, Emit mode only) is the value built so far at this level
    fn level_val(&self, inp: &mut InputRef<'static, '_, I8, E8>, v: Option<u16>) -> bool {
        let g = self.g();
        match (v, g.val[g.depth]) {
            (Some(v), Some(w)) => v == w,
            (Some(v), None) => {
                // not produced by the table: the output of the most recent atom
                let mut last = None;
                let mut best = 0u8;
                unroll!(k in [0, 1, 2] {
                    let l = inp.state.log[k];
                    if l.called && l.ok && (last.is_none() || l.order >= best) {
                        last = Some(l.out);
                        best = l.order;
                    }
                });
                last == Some(v)
            }
            (None, _) => true,
        }
    }
}
impl Operator<'static, I8, u16, E8> for AnyOp {
    fn do_parse_prefix<'parse, M: Mode>(
        &self,
        inp: &mut InputRef<'static, 'parse, I8, E8>,
        pre_expr: &CP<'parse>,
        f: &impl Fn(&mut InputRef<'static, 'parse, I8, E8>, u32) -> PResult<M, u16>,
    ) -> PResult<M, u16> {
        let g = self.g();
        let d = g.depth;
        vassert!(d < LV, "FW/pratt-stub-levels");
        ch::assume(d < LV);
        vassert!(g.last_kind[d] == 0, "C09/pratt_loop.an-expression-starts-with-one-prefix-attempt");
        vassert!(inp.cursor == *pre_expr.cursor().inner(), "C09/pratt_loop.prefix-attempt-at-the-start-of-the-expression");
        if g.prefix_attempts == 0 {
            g.first_prefix_pos = inp.cursor;
        }
        g.prefix_attempts += 1;
        g.attempts += 1;
        g.last_kind[d] = 1;
        g.last_pos[d] = inp.cursor;
        g.last_applied[d] = false;
        g.val[d] = None;
        let applies = g.apps < self.max_apps && d + 1 < LV && d < self.max_depth && (!self.chain || d == 1) && ch::any_bool();
        if !applies || !Self::consume(inp) {
            return Err(());
        }
        g.apps += 1;
        let p = ch::any_u32();
        g.power[d + 1] = p;
        g.last_kind[d + 1] = 0;
        g.depth = d + 1;
        let r = f(inp, p);
        let g = self.g();
        g.depth = d;
        match r {
            Ok(_operand) => {
                let out = ch::any_u16();
                g.val[d] = Some(out);
                g.last_applied[d] = true;
                g.prefix_applied += 1;
                Ok(M::bind(|| out))
            }
            Err(()) => {
                // operand missing: the operator leaves the input where the attempt started
                inp.rewind(pre_expr.clone());
                Err(())
            }
        }
    }
    fn do_parse_postfix<'parse, M: Mode>(&self, inp: &mut InputRef<'static, 'parse, I8, E8>, _pre_expr: &CU<'parse>, pre_op: &CP<'parse>, lhs: M::Output<u16>, min_power: u32) -> Result<M::Output<u16>, M::Output<u16>> {
        let g = self.g();
        let d = g.depth;
        vassert!(d < LV, "FW/pratt-stub-levels");
        ch::assume(d < LV);
        vassert!(inp.cursor == *pre_op.cursor().inner(), "C09/pratt_loop.operator-attempts-start-where-the-round-started");
        vassert!(min_power == g.power[d], "C09/pratt_loop.postfix-operators-are-tried-at-the-binding-power-of-their-operand");
        vassert!(g.last_kind[d] == 1 || g.last_applied[d], "C09/pratt_loop.postfix-attempt-opens-each-round");
        let mut seen: Option<u16> = None;
        let lhs = M::map(lhs, |v| {
            seen = Some(v);
            v
        });
        let lhs_ok = self.level_val(inp, seen);
        vassert!(lhs_ok, "C09/pratt_loop.postfix-gets-the-expression-built-so-far");
        let g = self.g();
        if d >= 1 {
            g.nested_seen = true;
        }
        if d > g.deepest {
            g.deepest = d;
        }
        g.attempts += 1;
        g.last_kind[d] = 2;
        g.last_pos[d] = inp.cursor;
        g.last_applied[d] = false;
        if d == 0 {
            g.end_pos0 = inp.cursor;
        }
        let applies = g.apps < self.max_apps && !self.chain && ch::any_bool();
        if !applies || !Self::consume(inp) {
            return Err(lhs);
        }
        g.apps += 1;
        let out = ch::any_u16();
        g.val[d] = Some(out);
        g.last_applied[d] = true;
        g.postfix_applied += 1;
        Ok(M::bind(|| out))
    }
    fn do_parse_infix<'parse, M: Mode>(
        &self,
        inp: &mut InputRef<'static, 'parse, I8, E8>,
        _pre_expr: &CU<'parse>,
        pre_op: &CP<'parse>,
        lhs: M::Output<u16>,
        min_power: u32,
        f: &impl Fn(&mut InputRef<'static, 'parse, I8, E8>, u32) -> PResult<M, u16>,
    ) -> Result<M::Output<u16>, M::Output<u16>> {
        let g = self.g();
        let d = g.depth;
        vassert!(d < LV, "FW/pratt-stub-levels");
        ch::assume(d < LV);
        let pre_op_pos = *pre_op.cursor().inner();
        vassert!(inp.cursor == pre_op_pos, "C09/pratt_loop.infix-attempt-starts-where-the-round-started");
        vassert!(min_power == g.power[d], "C09/pratt_loop.infix-operators-are-tried-at-the-binding-power-of-their-operand");
        vassert!(g.last_kind[d] == 2 && !g.last_applied[d] && g.last_pos[d] == pre_op_pos, "C09/pratt_loop.infix-tried-only-after-postfix-did-not-apply-at-this-position");
        let mut seen: Option<u16> = None;
        let lhs = M::map(lhs, |v| {
            seen = Some(v);
            v
        });
        let lhs_ok = self.level_val(inp, seen);
        vassert!(lhs_ok, "C09/pratt_loop.infix-gets-the-expression-built-so-far-as-left-operand");
        let g = self.g();
        g.attempts += 1;
        g.last_kind[d] = 3;
        g.last_pos[d] = inp.cursor;
        g.last_applied[d] = false;
        let applies = g.apps < self.max_apps && d + 1 < LV && d < self.max_depth && (!self.chain || d == 0) && ch::any_bool();
        if !applies || !Self::consume(inp) {
            return Err(lhs);
        }
        g.apps += 1;
        let p = ch::any_u32();
        g.power[d + 1] = p;
        g.last_kind[d + 1] = 0;
        g.depth = d + 1;
        let r = f(inp, p);
        let g = self.g();
        g.depth = d;
        match r {
            Ok(_rhs) => {
                let out = ch::any_u16();
                g.val[d] = Some(out);
                g.last_applied[d] = true;
                g.infix_applied += 1;
                Ok(M::bind(|| out))
            }
            Err(()) => {
                // right operand missing: the operator is left unconsumed
                inp.rewind(pre_op.clone());
                Err(lhs)
            }
        }
    }
    fn do_parse_prefix_check<'parse>(&self, inp: &mut InputRef<'static, 'parse, I8, E8>, pre_expr: &CP<'parse>, f: &dyn Fn(&mut InputRef<'static, 'parse, I8, E8>, u32) -> PResult<Check, u16>) -> PResult<Check, u16> {
        self.do_parse_prefix::<Check>(inp, pre_expr, &f)
    }
    fn do_parse_prefix_emit<'parse>(&self, inp: &mut InputRef<'static, 'parse, I8, E8>, pre_expr: &CP<'parse>, f: &dyn Fn(&mut InputRef<'static, 'parse, I8, E8>, u32) -> PResult<Emit, u16>) -> PResult<Emit, u16> {
        self.do_parse_prefix::<Emit>(inp, pre_expr, &f)
    }
    fn do_parse_postfix_check<'parse>(&self, inp: &mut InputRef<'static, 'parse, I8, E8>, pre_expr: &CU<'parse>, pre_op: &CP<'parse>, lhs: (), min_power: u32) -> Result<(), ()> {
        self.do_parse_postfix::<Check>(inp, pre_expr, pre_op, lhs, min_power)
    }
    fn do_parse_postfix_emit<'parse>(&self, inp: &mut InputRef<'static, 'parse, I8, E8>, pre_expr: &CU<'parse>, pre_op: &CP<'parse>, lhs: u16, min_power: u32) -> Result<u16, u16> {
        self.do_parse_postfix::<Emit>(inp, pre_expr, pre_op, lhs, min_power)
    }
    fn do_parse_infix_check<'parse>(&self, inp: &mut InputRef<'static, 'parse, I8, E8>, pre_expr: &CU<'parse>, pre_op: &CP<'parse>, lhs: (), min_power: u32, f: &dyn Fn(&mut InputRef<'static, 'parse, I8, E8>, u32) -> PResult<Check, u16>) -> Result<(), ()> {
        self.do_parse_infix::<Check>(inp, pre_expr, pre_op, lhs, min_power, &f)
    }
    fn do_parse_infix_emit<'parse>(&self, inp: &mut InputRef<'static, 'parse, I8, E8>, pre_expr: &CU<'parse>, pre_op: &CP<'parse>, lhs: u16, min_power: u32, f: &dyn Fn(&mut InputRef<'static, 'parse, I8, E8>, u32) -> PResult<Emit, u16>) -> Result<u16, u16> {
        self.do_parse_infix::<Emit>(inp, pre_expr, pre_op, lhs, min_power, &f)
    }
}

/// `atom.pratt(table)` with the stub table: the driver's contract (see the head of this file).
pub fn h_pratt_loop<M: VMode, const APPS: usize, const DEPTH: usize, const CHAIN: bool>() {
    run::<u8, VS, (), _>(|inp, s0| {
        inp.state.quiet = true;
        let mut ghost = OpGhost::new();
        let mut atom = anyp_multi::<I8, E8>(0, 3);
        atom.progress = !CHAIN; // (the chain shape needs four parts: let atoms be empty so that short inputs reach it)
        atom.ok_offers = false;
        let p = atom.pratt(AnyOp { g: &mut ghost, max_apps: APPS, max_depth: DEPTH, chain: CHAIN });
        let r = p.gov::<M>(inp);
        let s = snap(inp);
        let g = &ghost;
        vassert!(g.depth == 0, "FW/pratt-stub-depth-balanced");
        vassert!(g.prefix_attempts >= 1 && g.first_prefix_pos == s0.pos, "C09/pratt_loop.expression-starts-with-a-prefix-attempt-at-the-entry-position");
        let a0 = lg(inp, 0);
        if r.is_ok() {
            if APPS >= 2 && !CHAIN {
                vcover!(g.infix_applied == 2, "pratt loop: two infix operators");
                vcover!(g.prefix_applied == 1 && g.infix_applied == 1, "pratt loop: prefix and infix");
                vcover!(g.postfix_applied == 1 && g.prefix_applied == 1, "pratt loop: prefix and postfix");
            }
            vcover!(g.prefix_applied == 1, "pratt loop: a prefix operator applied");
            vcover!(g.infix_applied == 1, "pratt loop: an infix operator applied");
            if !CHAIN {
                vcover!(g.postfix_applied == 1, "pratt loop: a postfix operator applied");
            }
            vcover!(g.apps == 0, "pratt loop: a single atom");
            vcover!(g.nested_seen, "pratt loop: operator attempts inside an operand");
            if DEPTH >= 2 {
                vcover!(g.prefix_applied == 1 && g.infix_applied == 1 && g.deepest == 2, "pratt loop: a prefix operator inside the right operand of an infix operator");
            }
            // the expression ends where the last round of attempts at the outer level started
            vassert!(g.last_kind[0] == 3 && !g.last_applied[0], "C09/pratt_loop.ends-only-after-neither-postfix-nor-infix-applied");
            vassert!(s.pos == g.end_pos0 && s.believed == s.pos, "C09/pratt_loop.ends-where-the-last-round-started-unusable-operator-left-unconsumed");
            match (VModePeek::<M>::peek(&r), g.val[0]) {
                (Some(v), Some(w)) => vassert!(v == w, "C09/pratt_loop.result-is-the-expression-built-by-the-last-applied-operator"),
                (Some(v), None) => {
                    // no operator completed at the outer level: the value is the outer level's atom
                    let mut n0 = 0usize;
                    let mut same = false;
                    unroll!(k in [0, 1, 2] {
                        let l = lg(inp, k);
                        if l.called && l.ok && l.rdepth == 0 {
                            n0 += 1;
                            same = l.out == v;
                        }
                    });
                    vassert!(n0 == 1 && same, "C09/pratt_loop.without-a-completed-operator-the-result-is-the-atom");
                }
                _ => {}
            }
        } else {
            vcover!(true, "pratt loop: no expression");
            // only a missing first operand makes the whole expression fail
            vassert!(g.prefix_applied == 0 || g.depth == 0, "FW/pratt-stub-sane");
            vassert!(s.alt.is_some(), "C20/pratt_loop.failure-leaves-pending-error");
            vassert!(g.infix_applied == 0 && g.postfix_applied == 0 || g.apps > 0, "FW/pratt-stub-sane2");
        }
        vassert!(g.attempts <= 14, "FW/pratt-stub-attempt-count");
    });
}
struct VModePeek<M>(core::marker::PhantomData<M>);
impl<M: VMode> VModePeek<M> {
    fn peek(r: &PResult<M, u16>) -> Option<u16> {
        match r {
            Ok(o) => M::peek(o),
            Err(()) => None,
        }
    }
}

harnesses! {
    #[kani::unwind(3)]
    pratt_loop_emit_b1 = h_pratt_loop::<Emit, 1, 1, false>;
    #[kani::unwind(3)]
    pratt_loop_check_b1 = h_pratt_loop::<Check, 1, 1, false>;
    #[kani::unwind(4)]
    pratt_loop_emit_b2_t = h_pratt_loop::<Emit, 2, 1, false>;
    #[kani::unwind(4)]
    pratt_loop_prefix_in_operand_emit_b2 = h_pratt_loop::<Emit, 2, 2, true>;
}
