// @config debug_assertions=off
// C13 "clonable": the hand-written `Clone` impls of the combinators copy every field to the same field.
// A clone is compared with the original field by field (children are contract stubs distinguished by
// their slot and flags; configuration data is symbolic; closures are compared by applying them), so a
// clone is the same parser value and - by the contracts proved for that value - behaves identically.
// Loop-free, all data symbolic: complete proofs. Structs whose fields are private to their module
// (`Just`, `OneOf`, `NoneOf`, pratt operators) are compared through their behaviour on one token instead.

use super::fw::*;
use crate::prelude::*;
use crate::private::{Check, Emit, Mode};
use crate::{IterParser, Parser};

type P = AnyP<SymIn<u8>, X<VS>>;
type It = AnyIt<SymIn<u8>, X<VS>>;

/// An arbitrary stub value (every field symbolic).
fn anyp_sym() -> P {
    let mut p = anyp::<SymIn<u8>, X<VS>>(ch::below(5));
    p.progress = ch::any_bool();
    p.ok_offers = ch::any_bool();
    p.span = ch::any_usize();
    p.bounded = ch::any_bool();
    p.inner = ch::any_bool();
    p
}
fn anyit_sym() -> It {
    let mut p = anyit::<SymIn<u8>, X<VS>>(ch::below(5), ch::any_usize());
    p.progress = ch::any_bool();
    p
}
fn eqp(a: &P, b: &P) -> bool {
    a.slot == b.slot && a.progress == b.progress && a.ok_offers == b.ok_offers && a.span == b.span && a.bounded == b.bounded && a.inner == b.inner
}
fn eqi(a: &It, b: &It) -> bool {
    a.slot == b.slot && a.span == b.span && a.progress == b.progress
}

/// sequencing / lookahead / wrappers with parser children only
pub fn h_clone_structural() {
    let (a, b, c) = (anyp_sym(), anyp_sym(), anyp_sym());
    vcover!(a.slot != b.slot && b.slot != c.slot, "clone: distinguishable children");
    let p = a.then(b);
    let q = Clone::clone(&p);
    vassert!(eqp(&q.parser_a, &a) && eqp(&q.parser_b, &b), "C13/clone.then");
    let p = a.ignore_then(b);
    let q = Clone::clone(&p);
    vassert!(eqp(&q.parser_a, &a) && eqp(&q.parser_b, &b), "C13/clone.ignore_then");
    let p = a.then_ignore(b);
    let q = Clone::clone(&p);
    vassert!(eqp(&q.parser_a, &a) && eqp(&q.parser_b, &b), "C13/clone.then_ignore");
    let p = a.delimited_by(b, c);
    let q = Clone::clone(&p);
    vassert!(eqp(&q.parser, &a) && eqp(&q.start, &b) && eqp(&q.end, &c), "C13/clone.delimited_by");
    let p = a.padded_by(b);
    let q = Clone::clone(&p);
    vassert!(eqp(&q.parser, &a) && eqp(&q.padding, &b), "C13/clone.padded_by");
    let p = a.and_is(b);
    let q = Clone::clone(&p);
    vassert!(eqp(&q.parser_a, &a) && eqp(&q.parser_b, &b), "C13/clone.and_is");
    let p = a.not();
    let q = Clone::clone(&p);
    vassert!(eqp(&q.parser, &a), "C13/clone.not");
    let p = a.ignored();
    let q = Clone::clone(&p);
    vassert!(eqp(&q.parser, &a), "C13/clone.ignored");
    let p = a.to_span();
    let q = Clone::clone(&p);
    vassert!(eqp(&q.parser, &a), "C13/clone.to_span");
    let p = a.or_not();
    let q = Clone::clone(&p);
    vassert!(eqp(&q.parser, &a), "C13/clone.or_not");
    let p = a.rewind();
    let q = Clone::clone(&p);
    vassert!(eqp(&q.parser, &a), "C13/clone.rewind");
}

/// combinators that carry configuration data besides their children
pub fn h_clone_config() {
    let (a, b) = (anyp_sym(), anyp_sym());
    let (lo, hi) = (ch::any_usize(), ch::any_usize());
    let (lead, trail) = (ch::any_bool(), ch::any_bool());
    let mut p = a.repeated().at_least(lo);
    if ch::any_bool() {
        p = p.at_most(hi);
    }
    let q = Clone::clone(&p);
    vassert!(eqp(&q.parser, &p.parser) && q.at_least == p.at_least && q.at_most == p.at_most, "C13/clone.repeated-keeps-item-and-bounds");
    let mut p = a.separated_by(b).at_least(lo);
    if ch::any_bool() {
        p = p.at_most(hi);
    }
    if lead {
        p = p.allow_leading();
    }
    if trail {
        p = p.allow_trailing();
    }
    vcover!(lead != trail, "clone: exactly one of allow_leading / allow_trailing");
    vassert!(p.allow_leading == lead && p.allow_trailing == trail && p.at_least == lo, "C02/separated_by.builders-set-their-own-field");
    let q = Clone::clone(&p);
    vassert!(eqp(&q.parser, &a) && eqp(&q.separator, &b), "C13/clone.separated_by-keeps-item-and-separator");
    vassert!(q.at_least == p.at_least && q.at_most == p.at_most, "C13/clone.separated_by-keeps-bounds");
    vassert!(q.allow_leading == p.allow_leading && q.allow_trailing == p.allow_trailing, "C13/clone.separated_by-keeps-leading-and-trailing-flags");
    let k = ch::any_u16();
    let p = a.to(k);
    let q = Clone::clone(&p);
    vassert!(eqp(&q.parser, &a) && q.to == k, "C13/clone.to");
    let p = a.with_ctx(k);
    let q = Clone::clone(&p);
    vassert!(q.ctx == k, "C13/clone.with_ctx");
    let p = a.labelled(VLabel(k));
    let p = if ch::any_bool() { p.as_context() } else { p };
    let q = Clone::clone(&p);
    vassert!(eqp(&q.parser, &a) && q.label == p.label && q.is_context == p.is_context, "C13/clone.labelled");
    let p = a.recover_with(via_parser(b));
    let q = Clone::clone(&p);
    vassert!(eqp(&q.parser, &a), "C13/clone.recover_with");
}

/// combinators holding a user function: the clone applies the same function
pub fn h_clone_closures() {
    let a = anyp_sym();
    let it = anyit_sym();
    let k = ch::any_u16();
    let x = ch::any_u16();
    let p = a.map(move |o: u16| o.wrapping_add(k));
    let q = Clone::clone(&p);
    vassert!(eqp(&q.parser, &a) && (q.mapper)(x) == x.wrapping_add(k), "C13/clone.map");
    let p = a.filter(move |o: &u16| *o < k);
    let q = Clone::clone(&p);
    vassert!(eqp(&q.parser, &a) && (q.filter)(&x) == (x < k), "C13/clone.filter");
    let p = it.foldr(a, move |i: u16, acc: u16| acc.wrapping_mul(k).wrapping_add(i));
    let q = Clone::clone(&p);
    vassert!(eqi(&q.parser_a, &it) && eqp(&q.parser_b, &a) && (q.folder)(x, 3) == 3u16.wrapping_mul(k).wrapping_add(x), "C13/clone.foldr");
    let p = a.foldl(it, move |acc: u16, i: u16| acc.wrapping_mul(k).wrapping_add(i));
    let q = Clone::clone(&p);
    vassert!(eqp(&q.parser_a, &a) && eqi(&q.parser_b, &it) && (q.folder)(3, x) == 3u16.wrapping_mul(k).wrapping_add(x), "C13/clone.foldl");
    let p = it.collect::<usize>();
    let q = Clone::clone(&p);
    vassert!(eqi(&q.parser, &it), "C13/clone.collect");
    let p = it.enumerate();
    let q = Clone::clone(&p);
    vassert!(eqi(&q.parser, &it), "C13/clone.enumerate");
    vcover!(true, "clone: closures compared");
}

/// primitives whose fields are private: the clone accepts exactly the same token
pub fn h_clone_primitives<M: VMode>() {
    run::<u8, VErr, (), _>(|inp, s0| {
        let t = ch::any_u8();
        let which = ch::below(2);
        let here = if s0.pos < s0.len { Some(inp.cache.tok_at(s0.pos)) } else { None };
        let (ok, want) = match which {
            0 => (Clone::clone(&just::<u8, SymIn<u8>, X<VErr>>(t)).gov::<M>(inp).is_ok(), here == Some(t)),
            1 => (Clone::clone(&one_of::<[u8; 1], SymIn<u8>, X<VErr>>([t])).gov::<M>(inp).is_ok(), here == Some(t)),
            _ => (Clone::clone(&none_of::<[u8; 1], SymIn<u8>, X<VErr>>([t])).gov::<M>(inp).is_ok(), here.is_some() && here != Some(t)),
        };
        vcover!(ok, "clone: cloned primitive accepts");
        vassert!(ok == want, "C13/clone.just-one_of-none_of-match-the-same-tokens");
    });
}

harnesses! {
    clone_structural = h_clone_structural;
    clone_config = h_clone_config;
    clone_closures = h_clone_closures;
    clone_primitives_emit = h_clone_primitives::<Emit>;
}
