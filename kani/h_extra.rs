// @config debug_assertions=off
// Round 5: functions the earlier modules left without a contract.
//  * the `Span` algebra of src/span.rs (`new` / `start` / `end` / `context` for `SimpleSpan`, `Range` and
//    `(C, S)`; the provided methods `to_end` and `union`; `into_range` and the two `From` conversions):
//    loop-free over the whole `usize` domain, i.e. complete proofs. C07 rests on "end >= start" being kept
//    by every operation that builds a span from well-formed spans.
// (`unwrapped()` was tried here as well: its constructor stores `Location::caller()` unconditionally, which
// Kani does not support - "caller_location" -, so it stays outside the contracts; see DESIGN 9.8.)

use super::fw::*;
use crate::prelude::*;
use crate::private::{Check, Emit};
use crate::span::Span;
use crate::Parser;
use core::ops::Range;

pub fn h_span_simple() {
    let (a, b, c) = (ch::any_usize(), ch::any_usize(), ch::any_u16());
    let s: SimpleSpan<usize, u16> = <SimpleSpan<usize, u16> as Span>::new(c, a..b);
    vassert!(s.start == a && s.end == b && s.context == c, "C07/span.simple-new-keeps-range-and-context");
    vassert!(Span::start(&s) == a && Span::end(&s) == b && Span::context(&s) == c, "C07/span.simple-accessors-return-what-new-was-given");
    let e = s.to_end();
    vassert!(e.start == b && e.end == b && e.context == c, "C07/span.to_end-is-the-empty-span-at-the-end");
    vassert!(e.start <= e.end, "C07/span.to_end-is-well-formed");
    let r = s.into_range();
    vassert!(r.start == a && r.end == b, "C07/span.into_range-is-start-to-end");
    let f: SimpleSpan<usize> = (a..b).into();
    vassert!(f.start == a && f.end == b, "C07/span.from-range-keeps-both-offsets");
    let back: Range<usize> = f.into();
    vassert!(back.start == a && back.end == b, "C07/span.into-range-keeps-both-offsets");
    vcover!(a < b, "span: non-empty");
    vcover!(a == b, "span: empty");
}

pub fn h_span_union() {
    let (a, b, x, y, c) = (ch::any_usize(), ch::any_usize(), ch::any_usize(), ch::any_usize(), ch::any_u16());
    // the documented precondition: both spans well-formed, same context
    ch::assume(a <= b && x <= y);
    let s: SimpleSpan<usize, u16> = Span::new(c, a..b);
    let t: SimpleSpan<usize, u16> = Span::new(c, x..y);
    let u = s.union(t);
    vassert!(u.start <= u.end, "C07/span.union-of-well-formed-spans-is-well-formed");
    vassert!(u.start <= a && u.start <= x && u.end >= b && u.end >= y, "C07/span.union-encompasses-both");
    vassert!((u.start == a || u.start == x) && (u.end == b || u.end == y), "C07/span.union-is-the-smallest-such-span");
    vassert!(u.context == c, "C07/span.union-keeps-the-context");
    let u2 = t.union(s);
    vassert!(u2 == u, "C07/span.union-is-symmetric");
    vcover!(b < x, "union: disjoint");
    vcover!(a < x && x < b && b < y, "union: overlapping");
    vcover!(x < a && b < y, "union: nested");
}

pub fn h_span_range_tuple() {
    let (a, b, c) = (ch::any_usize(), ch::any_usize(), ch::any_u16());
    let r: Range<usize> = <Range<usize> as Span>::new((), a..b);
    vassert!(Span::start(&r) == a && Span::end(&r) == b, "C07/span.range-accessors-return-what-new-was-given");
    let e = r.to_end();
    vassert!(e.start == b && e.end == b, "C07/span.to_end-is-the-empty-span-at-the-end");
    let t: (u16, SimpleSpan<usize>) = <(u16, SimpleSpan<usize>) as Span>::new(c, a..b);
    vassert!(t.0 == c && t.1.start == a && t.1.end == b, "C07/span.tuple-new-keeps-range-and-context");
    vassert!(Span::start(&t) == a && Span::end(&t) == b && Span::context(&t) == c, "C07/span.tuple-accessors-return-what-new-was-given");
    let te = t.to_end();
    vassert!(te.0 == c && te.1.start == b && te.1.end == b, "C07/span.to_end-is-the-empty-span-at-the-end");
    ch::assume(a <= b);
    let (x, y) = (ch::any_usize(), ch::any_usize());
    ch::assume(x <= y);
    let t2: (u16, SimpleSpan<usize>) = Span::new(c, x..y);
    let u = t.union(t2);
    vassert!(Span::start(&u) <= Span::end(&u), "C07/span.union-of-well-formed-spans-is-well-formed");
    vassert!(Span::start(&u) <= a && Span::start(&u) <= x && Span::end(&u) >= b && Span::end(&u) >= y && u.0 == c, "C07/span.union-encompasses-both");
    vcover!(a < b && x < y, "tuple span: two non-empty spans");
}

// ------------------------------------------------------------------ one_of / none_of over other set types
// h_prim.rs proves one_of / none_of with an array as the set. The set is consulted through `Seq::contains`,
// which every set type implements on its own (src/container.rs): ranges, a single token, a slice.
// KIND: 0 = a..b, 1 = a..=b, 2 = a.., 3 = single token, 4 = &[a, b]; NEG: none_of instead of one_of.
fn tok_here_x<T: SymTok>(inp: &mut IR<'_, T, VErr>, s0: &S0) -> Option<T> {
    if s0.pos < s0.len {
        Some(inp.cache.tok_at(s0.pos))
    } else {
        None
    }
}

pub fn h_set_kinds<M: VMode, const KIND: usize, const NEG: bool>() {
    run::<u8, VErr, (), _>(|inp, s0| {
        let (a, b) = (ch::any_u8(), ch::any_u8());
        let pair: &'static [u8; 2] = alloc::boxed::Box::leak(alloc::boxed::Box::new([a, b]));
        let r = match (KIND, NEG) {
            (0, false) => one_of::<Range<u8>, SymIn<u8>, X<VErr>>(a..b).gov::<M>(inp),
            (0, true) => none_of::<Range<u8>, SymIn<u8>, X<VErr>>(a..b).gov::<M>(inp),
            (1, false) => one_of::<core::ops::RangeInclusive<u8>, SymIn<u8>, X<VErr>>(a..=b).gov::<M>(inp),
            (1, true) => none_of::<core::ops::RangeInclusive<u8>, SymIn<u8>, X<VErr>>(a..=b).gov::<M>(inp),
            (2, false) => one_of::<core::ops::RangeFrom<u8>, SymIn<u8>, X<VErr>>(a..).gov::<M>(inp),
            (2, true) => none_of::<core::ops::RangeFrom<u8>, SymIn<u8>, X<VErr>>(a..).gov::<M>(inp),
            (3, false) => one_of::<u8, SymIn<u8>, X<VErr>>(a).gov::<M>(inp),
            (3, true) => none_of::<u8, SymIn<u8>, X<VErr>>(a).gov::<M>(inp),
            (_, false) => one_of::<&[u8], SymIn<u8>, X<VErr>>(&pair[..]).gov::<M>(inp),
            (_, true) => none_of::<&[u8], SymIn<u8>, X<VErr>>(&pair[..]).gov::<M>(inp),
        };
        let here = tok_here_x(inp, &s0);
        let member = match here {
            Some(t) => match KIND {
                0 => a <= t && t < b,
                1 => a <= t && t <= b,
                2 => a <= t,
                3 => t == a,
                _ => t == a || t == b,
            },
            None => false,
        };
        let accept = here.is_some() && (member != NEG);
        let s = snap(inp);
        let alt = alt_full(inp);
        vassert!(r.is_ok() == accept, "C01/set_kinds.accepts-iff-token-here-is-in-the-set-or-not-for-none_of");
        vassert!(s.nsec == s0.nsec, "C05/set_kinds.emits-nothing");
        vassert!(s.believed == s.pos, "C18/set_kinds.inspector-at-position");
        if accept {
            vcover!(true, "set kinds: token accepted");
            vassert!(s.pos == s0.pos + 1, "C01/set_kinds.consumes-exactly-one-token");
            vassert!(ok_with::<M, _>(&r, here.unwrap_or(0)), "C01/set_kinds.output-is-the-token");
            vassert!(alt.map(|x| (x.0, x.1.id)) == s0.alt, "C06/set_kinds.success-leaves-pending-error-alone");
        } else {
            vcover!(here.is_none(), "set kinds: end of input");
            vcover!(here.is_some(), "set kinds: token rejected");
            vassert!(s.pos == s0.pos, "C01/set_kinds.failure-restores-position");
            vassert!(alt.is_some(), "C20/set_kinds.failure-leaves-pending-error");
            let (prio, span, found) = prim_alt_spec(&s0, alt, here.map(|t| t.code()));
            vassert!(prio, "C06/set_kinds.failure-offered-at-entry-position-by-priority");
            vassert!(span, "C06/set_kinds.error-span-is-the-offending-token");
            vassert!(found, "C06/set_kinds.found-is-token-at-span-start-none-only-at-end");
        }
    });
}

harnesses! {
    span_simple_algebra = h_span_simple;
    span_union_algebra = h_span_union;
    span_range_tuple_algebra = h_span_range_tuple;
    one_of_range_emit = h_set_kinds::<Emit, 0, false>;
    none_of_range_check = h_set_kinds::<Check, 0, true>;
    one_of_range_inclusive_check = h_set_kinds::<Check, 1, false>;
    none_of_range_inclusive_emit = h_set_kinds::<Emit, 1, true>;
    one_of_range_from_emit = h_set_kinds::<Emit, 2, false>;
    none_of_range_from_emit = h_set_kinds::<Emit, 2, true>;
    one_of_single_emit = h_set_kinds::<Emit, 3, false>;
    none_of_single_check = h_set_kinds::<Check, 3, true>;
    one_of_slice_set_emit = h_set_kinds::<Emit, 4, false>;
    none_of_slice_set_emit = h_set_kinds::<Emit, 4, true>;
}
