// @config debug_assertions=off
// Round 5: functions the earlier modules left without a contract.
//  * the `Span` algebra of src/span.rs (`new` / `start` / `end` / `context` for `SimpleSpan`, `Range` and
//    `(C, S)`; the provided methods `to_end` and `union`; `into_range` and the two `From` conversions):
//    loop-free over the whole `usize` domain, i.e. complete proofs. C07 rests on "end >= start" being kept
//    by every operation that builds a span from well-formed spans.
// (`unwrapped()` was tried here as well: its constructor stores `Location::caller()` unconditionally, which
// Kani does not support - "caller_location" -, so it stays outside the contracts; see DESIGN 9.8.)

use super::fw::*;
use crate::prelude::*;
use crate::span::Span;
use core::ops::Range;

pub fn h_span_simple() {
    let (a, b, c) = (ch::any_usize(), ch::any_usize(), ch::any_u16());
    let s: SimpleSpan<usize, u16> = <SimpleSpan<usize, u16> as Span>::new(c, a..b);
    vassert!(s.start == a && s.end == b && s.context == c, "C07/span.simple-new-keeps-range-and-context");
    vassert!(Span::start(&s) == a && Span::end(&s) == b && Span::context(&s) == c, "C07/span.simple-accessors-return-what-new-was-given");
    let e = s.to_end();
    vassert!(e.start == b && e.end == b && e.context == c, "C07/span.to_end-is-the-empty-span-at-the-end");
    vassert!(e.start <= e.end, "C07/span.to_end-is-well-formed");
    let r = s.into_range();
    vassert!(r.start == a && r.end == b, "C07/span.into_range-is-start-to-end");
    let f: SimpleSpan<usize> = (a..b).into();
    vassert!(f.start == a && f.end == b, "C07/span.from-range-keeps-both-offsets");
    let back: Range<usize> = f.into();
    vassert!(back.start == a && back.end == b, "C07/span.into-range-keeps-both-offsets");
    vcover!(a < b, "span: non-empty");
    vcover!(a == b, "span: empty");
}

pub fn h_span_union() {
    let (a, b, x, y, c) = (ch::any_usize(), ch::any_usize(), ch::any_usize(), ch::any_usize(), ch::any_u16());
    // the documented precondition: both spans well-formed, same context
    ch::assume(a <= b && x <= y);
    let s: SimpleSpan<usize, u16> = Span::new(c, a..b);
    let t: SimpleSpan<usize, u16> = Span::new(c, x..y);
    let u = s.union(t);
    vassert!(u.start <= u.end, "C07/span.union-of-well-formed-spans-is-well-formed");
    vassert!(u.start <= a && u.start <= x && u.end >= b && u.end >= y, "C07/span.union-encompasses-both");
    vassert!((u.start == a || u.start == x) && (u.end == b || u.end == y), "C07/span.union-is-the-smallest-such-span");
    vassert!(u.context == c, "C07/span.union-keeps-the-context");
    let u2 = t.union(s);
    vassert!(u2 == u, "C07/span.union-is-symmetric");
    vcover!(b < x, "union: disjoint");
    vcover!(a < x && x < b && b < y, "union: overlapping");
    vcover!(x < a && b < y, "union: nested");
}

pub fn h_span_range_tuple() {
    let (a, b, c) = (ch::any_usize(), ch::any_usize(), ch::any_u16());
    let r: Range<usize> = <Range<usize> as Span>::new((), a..b);
    vassert!(Span::start(&r) == a && Span::end(&r) == b, "C07/span.range-accessors-return-what-new-was-given");
    let e = r.to_end();
    vassert!(e.start == b && e.end == b, "C07/span.to_end-is-the-empty-span-at-the-end");
    let t: (u16, SimpleSpan<usize>) = <(u16, SimpleSpan<usize>) as Span>::new(c, a..b);
    vassert!(t.0 == c && t.1.start == a && t.1.end == b, "C07/span.tuple-new-keeps-range-and-context");
    vassert!(Span::start(&t) == a && Span::end(&t) == b && Span::context(&t) == c, "C07/span.tuple-accessors-return-what-new-was-given");
    let te = t.to_end();
    vassert!(te.0 == c && te.1.start == b && te.1.end == b, "C07/span.to_end-is-the-empty-span-at-the-end");
    ch::assume(a <= b);
    let (x, y) = (ch::any_usize(), ch::any_usize());
    ch::assume(x <= y);
    let t2: (u16, SimpleSpan<usize>) = Span::new(c, x..y);
    let u = t.union(t2);
    vassert!(Span::start(&u) <= Span::end(&u), "C07/span.union-of-well-formed-spans-is-well-formed");
    vassert!(Span::start(&u) <= a && Span::start(&u) <= x && Span::end(&u) >= b && Span::end(&u) >= y && u.0 == c, "C07/span.union-encompasses-both");
    vcover!(a < b && x < y, "tuple span: two non-empty spans");
}

harnesses! {
    span_simple_algebra = h_span_simple;
    span_union_algebra = h_span_union;
    span_range_tuple_algebra = h_span_range_tuple;
}
