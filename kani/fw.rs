// Framework shared by all harnesses. Compiled as `chumsky::input::verif::fw` through the cfg hook
// at the end of /repo/src/input.rs, so it sees crate-private items (InputRef.cursor, errors, Located…).
//
// Contents: choice source (`ch`), most-general symbolic input `SymIn<T>`, recording error types
// `VErr`/`VZ`, position-tracking inspector + ghost log `VState`, contract stubs (`AnyP`, `AnyIt`),
// symbolic entry state (`Setup`) and post-state snapshots.

use crate::error::{Error, LabelError};
use crate::extra::{self, ParserExtra};
use crate::input::{
    Checkpoint, Cursor, Errors, ExactSizeInput, Input, InputOwn, InputRef, SliceInput, StrInput,
    ValueInput,
};
use crate::inspector::Inspector;
use crate::private::{Check, Emit, IPResult, Located, Mode, PResult, Sealed};
use crate::span::{SimpleSpan, Span};
use crate::util::MaybeRef;
use crate::{IterParser, Parser};
use core::ops::{Range, RangeFrom};

// ---------------------------------------------------------------------------------------------
// Choice source. Under Kani every choice is a fresh symbolic value (full domain); natively the
// choices come from a thread-local odometer that the replay driver steps through a small scope.
// ---------------------------------------------------------------------------------------------
#[cfg(kani)]
pub mod ch {
    #[inline(always)]
    pub fn any_usize() -> usize {
        kani::any()
    }
    #[inline(always)]
    pub fn below(n: usize) -> usize {
        let x: usize = kani::any();
        kani::assume(x <= n);
        x
    }
    #[inline(always)]
    pub fn any_bool() -> bool {
        kani::any()
    }
    #[inline(always)]
    pub fn any_u8() -> u8 {
        kani::any()
    }
    #[inline(always)]
    pub fn any_u16() -> u16 {
        kani::any()
    }
    #[inline(always)]
    pub fn any_u32() -> u32 {
        kani::any()
    }
    #[inline(always)]
    pub fn any_char() -> char {
        kani::any()
    }
    #[inline(always)]
    pub fn assume(c: bool) {
        kani::assume(c)
    }
}

#[cfg(not(kani))]
pub mod ch {
    use std::cell::RefCell;
    /// Small-scope bound for "unbounded" native choices.
    pub const SMALL: u32 = 3;
    #[derive(Default, Clone)]
    pub struct Odo {
        pub script: Vec<u32>,
        pub bounds: Vec<u32>,
        pub pos: usize,
        /// when set, choices beyond the script are drawn pseudo-randomly instead of being 0
        pub rng: Option<u64>,
    }
    thread_local! { pub static ODO: RefCell<Odo> = RefCell::new(Odo::default()); }
    pub struct Discard;
    pub fn pick(bound: u32) -> u32 {
        ODO.with(|o| {
            let mut o = o.borrow_mut();
            let i = o.pos;
            o.pos += 1;
            if i < o.script.len() {
                if i < o.bounds.len() {
                    o.bounds[i] = bound;
                } else {
                    o.bounds.push(bound);
                }
                o.script[i].min(bound)
            } else {
                let v = match o.rng {
                    Some(mut x) => {
                        x ^= x << 13;
                        x ^= x >> 7;
                        x ^= x << 17;
                        o.rng = Some(x);
                        ((x >> 11) % (bound as u64 + 1)) as u32
                    }
                    None => 0,
                };
                o.script.push(v);
                o.bounds.push(bound);
                v
            }
        })
    }
    pub fn any_usize() -> usize {
        pick(SMALL) as usize
    }
    pub fn below(n: usize) -> usize {
        pick((n as u64).min(SMALL as u64) as u32) as usize
    }
    pub fn any_bool() -> bool {
        pick(1) == 1
    }
    pub fn any_u8() -> u8 {
        pick(2) as u8 + b'a'
    }
    pub fn any_u16() -> u16 {
        pick(1) as u16 + 7
    }
    pub fn any_u32() -> u32 {
        pick(SMALL)
    }
    pub fn any_char() -> char {
        (pick(2) as u8 + b'a') as char
    }
    pub fn assume(c: bool) {
        if !c {
            std::panic::panic_any(Discard);
        }
    }
}

// ---------------------------------------------------------------------------------------------
// Tokens
// ---------------------------------------------------------------------------------------------
pub trait TokCode {
    fn code(&self) -> u32;
}
impl TokCode for u8 {
    fn code(&self) -> u32 {
        *self as u32
    }
}
impl TokCode for char {
    fn code(&self) -> u32 {
        *self as u32
    }
}
impl TokCode for u16 {
    fn code(&self) -> u32 {
        *self as u32
    }
}
impl<A: TokCode, B> TokCode for (A, B) {
    fn code(&self) -> u32 {
        self.0.code()
    }
}

pub trait SymTok: Copy + PartialEq + TokCode + 'static {
    /// tokens are bytes (text properties are stated for ASCII text only on byte inputs)
    const BYTE: bool = false;
    fn fresh() -> Self;
    fn zero() -> Self;
}
impl SymTok for u8 {
    const BYTE: bool = true;
    fn fresh() -> Self {
        ch::any_u8()
    }
    fn zero() -> Self {
        0
    }
}
impl SymTok for char {
    fn fresh() -> Self {
        ch::any_char()
    }
    fn zero() -> Self {
        '\0'
    }
}

// ---------------------------------------------------------------------------------------------
// Most general input: symbolic length, a fresh symbolic token per position (memoised so that
// re-reads of a position agree). Satisfies nothing but the `Input` contract.
// ---------------------------------------------------------------------------------------------
#[cfg(kani)]
pub const MEMO: usize = 4;
#[cfg(not(kani))]
pub const MEMO: usize = 16;

#[derive(Clone, Copy)]
pub struct SymIn<T> {
    pub len: usize,
    pub _t: core::marker::PhantomData<T>,
}
impl<T> SymIn<T> {
    pub fn new(len: usize) -> Self {
        SymIn {
            len,
            _t: core::marker::PhantomData,
        }
    }
}
pub struct SymCache<T> {
    pub len: usize,
    pub n: usize,
    pub pos: [usize; MEMO],
    pub tok: [T; MEMO],
    /// number of `next*` calls served (ghost)
    pub reads: usize,
}
impl<T: SymTok> SymCache<T> {
    pub fn tok_at(&mut self, i: usize) -> T {
        let mut hit: Option<T> = None;
        #[cfg(kani)]
        unroll!(k in [0, 1, 2, 3] {
            if hit.is_none() && k < self.n && self.pos[k] == i {
                hit = Some(self.tok[k]);
            }
        });
        #[cfg(not(kani))]
        {
            let mut k = 0;
            while k < MEMO {
                if hit.is_none() && k < self.n && self.pos[k] == i {
                    hit = Some(self.tok[k]);
                }
                k += 1;
            }
        }
        if let Some(t) = hit {
            return t;
        }
        let t = T::fresh();
        // Capacity of the ghost memo: exceeding it makes the run undecided, never a pass.
        vassert!(self.n < MEMO, "FW/memo-capacity: harness read more distinct positions than the memo holds");
        ch::assume(self.n < MEMO);
        self.pos[self.n] = i;
        self.tok[self.n] = t;
        self.n += 1;
        t
    }
}
impl<'src, T: SymTok> Input<'src> for SymIn<T> {
    type Span = SimpleSpan<usize>;
    type Token = T;
    type MaybeToken = T;
    type Cursor = usize;
    type Cache = SymCache<T>;
    fn begin(self) -> (usize, SymCache<T>) {
        (
            0,
            SymCache {
                len: self.len,
                n: 0,
                pos: [0; MEMO],
                tok: [T::zero(); MEMO],
                reads: 0,
            },
        )
    }
    fn cursor_location(c: &usize) -> usize {
        *c
    }
    unsafe fn next_maybe(cache: &mut SymCache<T>, cursor: &mut usize) -> Option<T> {
        cache.reads = cache.reads.wrapping_add(1);
        if *cursor < cache.len {
            let t = cache.tok_at(*cursor);
            *cursor += 1;
            Some(t)
        } else {
            None
        }
    }
    unsafe fn span(_c: &mut SymCache<T>, r: Range<&usize>) -> SimpleSpan<usize> {
        (*r.start..*r.end).into()
    }
}
impl<'src, T: SymTok> ValueInput<'src> for SymIn<T> {
    unsafe fn next(cache: &mut SymCache<T>, cursor: &mut usize) -> Option<T> {
        Self::next_maybe(cache, cursor)
    }
}
/// Borrowed tokens: the symbolic input has no backing buffer, so each delivered token is placed in a
/// leaked box (harness only); which token is delivered where is still decided by the memo above.
impl<'src, T: SymTok> crate::input::BorrowInput<'src> for SymIn<T> {
    unsafe fn next_ref(cache: &mut SymCache<T>, cursor: &mut usize) -> Option<&'src T> {
        Self::next_maybe(cache, cursor).map(|t| &*alloc::boxed::Box::leak(alloc::boxed::Box::new(t)))
    }
}
impl<'src, T: SymTok> ExactSizeInput<'src> for SymIn<T> {
    unsafe fn span_from(cache: &mut SymCache<T>, r: RangeFrom<&usize>) -> SimpleSpan<usize> {
        (*r.start..cache.len).into()
    }
}
/// Slices of the symbolic input are (start, end) pairs: the contract of `slice` is "covers exactly
/// this cursor range".
#[derive(Clone, Copy, PartialEq, Eq, Debug)]
pub struct SymSlice {
    pub start: usize,
    pub end: usize,
}
impl<'src, T: SymTok> SliceInput<'src> for SymIn<T> {
    type Slice = SymSlice;
    fn full_slice(cache: &mut SymCache<T>) -> SymSlice {
        SymSlice {
            start: 0,
            end: cache.len,
        }
    }
    unsafe fn slice(_c: &mut SymCache<T>, r: Range<&usize>) -> SymSlice {
        SymSlice {
            start: *r.start,
            end: *r.end,
        }
    }
    unsafe fn slice_from(cache: &mut SymCache<T>, r: RangeFrom<&usize>) -> SymSlice {
        SymSlice {
            start: *r.start,
            end: cache.len,
        }
    }
}

// ---------------------------------------------------------------------------------------------
// Error types
// ---------------------------------------------------------------------------------------------
/// Recording error. `id == 0` marks errors built by the library through `expected_found`.
#[derive(Clone, Copy, PartialEq, Eq, Debug)]
pub struct VErr {
    pub id: u16,
    pub start: usize,
    pub end: usize,
    pub found: Option<u32>,
    /// how many times `merge` was applied to this error
    pub merges: u8,
    /// id of the error most recently merged into this one
    pub merged_id: u16,
    /// how many times `replace_expected_found` produced this error from an older one
    pub replaced: u8,
    pub labels: u8,
    pub label_id: u16,
    pub ctxs: u8,
    pub ctx_id: u16,
    pub ctx_start: usize,
    pub ctx_end: usize,
    pub mapped: u8,
}
impl VErr {
    pub fn mk(id: u16, start: usize, end: usize) -> VErr {
        VErr {
            id,
            start,
            end,
            found: None,
            merges: 0,
            merged_id: 0,
            replaced: 0,
            labels: 0,
            label_id: 0,
            ctxs: 0,
            ctx_id: 0,
            ctx_start: 0,
            ctx_end: 0,
            mapped: 0,
        }
    }
}
impl<'a, I: Input<'a>> Error<'a, I> for VErr
where
    I::Span: Span<Offset = usize>,
    I::Token: TokCode,
{
    fn merge(mut self, other: Self) -> Self {
        // additive, so that the count of merged contributions does not depend on association order
        self.merges = self.merges.wrapping_add(1).wrapping_add(other.merges);
        self.merged_id = other.id;
        self
    }
}
/// Labels used with `labelled`.
#[derive(Clone, Copy, PartialEq, Eq, Debug)]
pub struct VLabel(pub u16);
pub trait LabelId {
    fn label_id(&self) -> u16;
}
impl LabelId for VLabel {
    fn label_id(&self) -> u16 {
        self.0
    }
}
impl<'a, T> LabelId for crate::DefaultExpected<'a, T> {
    fn label_id(&self) -> u16 {
        0
    }
}
impl<'a, I: Input<'a>, L: LabelId> LabelError<'a, I, L> for VErr
where
    I::Span: Span<Offset = usize>,
    I::Token: TokCode,
{
    fn expected_found<E: IntoIterator<Item = L>>(
        _e: E,
        found: Option<MaybeRef<'a, I::Token>>,
        span: I::Span,
    ) -> Self {
        let mut e = VErr::mk(0, span.start(), span.end());
        e.found = found.map(|f| (*f).code());
        e
    }
    fn replace_expected_found<E: IntoIterator<Item = L>>(
        self,
        expected: E,
        found: Option<MaybeRef<'a, I::Token>>,
        span: I::Span,
    ) -> Self {
        let mut e: VErr = <VErr as LabelError<'a, I, L>>::expected_found(expected, found, span);
        e.replaced = self.replaced.wrapping_add(1);
        e
    }
    fn label_with(&mut self, label: L) {
        self.labels = self.labels.wrapping_add(1);
        self.label_id = label.label_id();
    }
    fn in_context(&mut self, label: L, span: I::Span) {
        self.ctxs = self.ctxs.wrapping_add(1);
        self.ctx_id = label.label_id();
        self.ctx_start = span.start();
        self.ctx_end = span.end();
    }
}

/// Small recording error for the combinator harnesses (children are stubs, so only identity and merge
/// bookkeeping matter). Kept small on purpose: the emitted-error list is a heap buffer of these and the
/// solver cost grows steeply with the element size.
#[derive(Clone, Copy, PartialEq, Eq, Debug)]
pub struct VS {
    pub id: u16,
    pub merges: u8,
    pub merged_id: u16,
}
impl<'a, I: Input<'a>> Error<'a, I> for VS {
    fn merge(mut self, other: Self) -> Self {
        // additive, so that the count of merged contributions does not depend on association order
        self.merges = self.merges.wrapping_add(1).wrapping_add(other.merges);
        self.merged_id = other.id;
        self
    }
}
impl<'a, I: Input<'a>, L> LabelError<'a, I, L> for VS {
    fn expected_found<E: IntoIterator<Item = L>>(
        _: E,
        _: Option<MaybeRef<'a, I::Token>>,
        _: I::Span,
    ) -> Self {
        VS { id: 0, merges: 0, merged_id: 0 }
    }
}

/// Zero-sized error: `add_alt`/`add_alt_err` branch on `size_of::<E::Error>() == 0`.
#[derive(Clone, Copy, PartialEq, Eq, Debug)]
pub struct VZ;
impl<'a, I: Input<'a>> Error<'a, I> for VZ {}
impl<'a, I: Input<'a>, L> LabelError<'a, I, L> for VZ {
    fn expected_found<E: IntoIterator<Item = L>>(
        _: E,
        _: Option<MaybeRef<'a, I::Token>>,
        _: I::Span,
    ) -> Self {
        VZ
    }
}

/// What the stubs need from an error type.
pub trait VE: Copy + 'static {
    const ZST: bool;
    fn mk(id: u16, start: usize, end: usize) -> Self;
    fn id(&self) -> u16;
    fn merges(&self) -> u8;
    fn verr(&self) -> Option<VErr>;
}
impl VE for VErr {
    const ZST: bool = false;
    fn mk(id: u16, start: usize, end: usize) -> Self {
        VErr::mk(id, start, end)
    }
    fn id(&self) -> u16 {
        self.id
    }
    fn merges(&self) -> u8 {
        self.merges
    }
    fn verr(&self) -> Option<VErr> {
        Some(*self)
    }
}
impl VE for VS {
    const ZST: bool = false;
    fn mk(id: u16, _: usize, _: usize) -> Self {
        VS { id, merges: 0, merged_id: 0 }
    }
    fn id(&self) -> u16 {
        self.id
    }
    fn merges(&self) -> u8 {
        self.merges
    }
    fn verr(&self) -> Option<VErr> {
        None
    }
}
impl VE for VZ {
    const ZST: bool = true;
    fn mk(_: u16, _: usize, _: usize) -> Self {
        VZ
    }
    fn id(&self) -> u16 {
        0
    }
    fn merges(&self) -> u8 {
        0
    }
    fn verr(&self) -> Option<VErr> {
        None
    }
}

// ---------------------------------------------------------------------------------------------
// User state: position-tracking inspector + ghost call log
// ---------------------------------------------------------------------------------------------
pub const SLOTS: usize = 6;
#[derive(Clone, Copy, Default, Debug)]
pub struct CallLog {
    pub called: bool,
    pub calls: u8,
    /// global order stamp of the (last) call
    pub order: u8,
    pub entry_pos: usize,
    pub entry_sec: usize,
    pub entry_believed: usize,
    pub entry_alt_some: bool,
    pub ok: bool,
    pub exit_pos: usize,
    pub emitted: usize,
    pub out: u16,
    pub offered: bool,
    pub fail_pos: usize,
    pub fail_id: u16,
    pub ctx_seen: u16,
    pub mode_emit: bool,
    /// 0 = succeeded / yielded an item, 1 = iterator stub reported "no more items", 2 = failed
    pub kind: u8,
    /// ghost: how many `recurse` (stack growth) guards were active when the stub was entered
    pub rdepth: usize,
}
#[derive(Clone, Debug)]
pub struct VState {
    /// Inspector model: the position the inspector believes the input is at.
    pub believed: usize,
    pub saves: u32,
    pub rewinds: u32,
    pub tokens: u32,
    /// ghost: length of the symbolic input
    pub len: usize,
    pub log: [CallLog; SLOTS],
    pub clock: u8,
    /// ghost scratch registers for closures
    pub reg: [usize; 8],
    pub flag: [bool; 4],
    /// harness bound: when set, a succeeding stub leaves at most this many tokens unread
    pub tail_bound: Option<usize>,
    /// harness bound: stubs emit no non-fatal errors (keeps deep driver harnesses tractable)
    pub quiet: bool,
    /// harness switch: a failing stub may leave NO failure behind (a child that breaks the "a failed parser
    /// leaves a pending error" rule; only the entry points, which must cope with it, are proved against it)
    pub silent_fail: bool,
    /// ghost: length of the inner input of a nested parse
    pub len2: usize,
    /// ghost: a log shared by every clone of this state (for sub-parsers that run on a cloned state)
    pub ext: *mut CallLog,
}
impl VState {
    pub fn new(len: usize) -> Self {
        VState {
            believed: 0,
            saves: 0,
            rewinds: 0,
            tokens: 0,
            len,
            log: [CallLog::default(); SLOTS],
            clock: 0,
            reg: [0; 8],
            flag: [false; 4],
            tail_bound: None,
            quiet: false,
            silent_fail: false,
            len2: 0,
            ext: core::ptr::null_mut(),
        }
    }
}
impl<'src, I: Input<'src>> Inspector<'src, I> for VState {
    type Checkpoint = usize;
    fn on_token(&mut self, _t: &I::Token) {
        self.believed = self.believed.wrapping_add(1);
        self.tokens = self.tokens.wrapping_add(1);
    }
    fn on_save<'p>(&self, _c: &Cursor<'src, 'p, I>) -> usize {
        self.believed
    }
    fn on_rewind<'p>(&mut self, m: &Checkpoint<'src, 'p, I, usize>) {
        self.believed = *m.inspector();
        self.rewinds = self.rewinds.wrapping_add(1);
    }
}

/// Contexts the stubs can record.
pub trait CtxId {
    fn ctx_id(&self) -> u16;
}
impl CtxId for () {
    fn ctx_id(&self) -> u16 {
        0
    }
}
impl CtxId for u16 {
    fn ctx_id(&self) -> u16 {
        *self
    }
}
impl CtxId for u8 {
    fn ctx_id(&self) -> u16 {
        *self as u16
    }
}
pub type X<Er, C = ()> = extra::Full<Er, VState, C>;
pub type IR<'p, T, Er, C = ()> = InputRef<'static, 'p, SymIn<T>, X<Er, C>>;

// ---------------------------------------------------------------------------------------------
// Mode helpers
// ---------------------------------------------------------------------------------------------
pub trait VMode: Mode {
    const EMIT: bool;
    fn peek<T: Copy>(o: &Self::Output<T>) -> Option<T>;
    fn peek_ref<T>(o: &Self::Output<T>) -> Option<&T>;
}
impl VMode for Emit {
    const EMIT: bool = true;
    fn peek<T: Copy>(o: &T) -> Option<T> {
        Some(*o)
    }
    fn peek_ref<T>(o: &T) -> Option<&T> {
        Some(o)
    }
}
impl VMode for Check {
    const EMIT: bool = false;
    fn peek<T: Copy>(_: &()) -> Option<T> {
        None
    }
    fn peek_ref<T>(_: &()) -> Option<&T> {
        None
    }
}
/// `r` is `Ok` and, in Emit mode, carries exactly `v`.
pub fn ok_with<M: VMode, T: Copy + PartialEq>(r: &PResult<M, T>, v: T) -> bool {
    match r {
        Ok(o) => match M::peek(o) {
            Some(x) => x == v,
            None => true,
        },
        Err(()) => false,
    }
}

// ---------------------------------------------------------------------------------------------
// Ghost nesting depth of `recursive::recurse` (the function that grows the stack before a recursive
// parser re-enters its definition; `stacker::maybe_grow(.., f)` with the stacker feature, `f()` in the
// build verified here). Entered through the cfg-guarded hook inside `recurse`.
// ---------------------------------------------------------------------------------------------
static RECURSE_DEPTH: core::sync::atomic::AtomicUsize = core::sync::atomic::AtomicUsize::new(0);
pub struct RecurseGuard;
impl RecurseGuard {
    #[inline]
    pub fn enter() -> RecurseGuard {
        RECURSE_DEPTH.fetch_add(1, core::sync::atomic::Ordering::SeqCst);
        RecurseGuard
    }
}
impl Drop for RecurseGuard {
    #[inline]
    fn drop(&mut self) {
        RECURSE_DEPTH.fetch_sub(1, core::sync::atomic::Ordering::SeqCst);
    }
}
pub fn recurse_depth() -> usize {
    RECURSE_DEPTH.load(core::sync::atomic::Ordering::SeqCst)
}

/// How every harness enters the parser under contract: through `Mode::invoke`, i.e. through the
/// `go_emit` / `go_check` entry points that `&P`, `Boxed`, `Recursive` and `dyn Parser` dispatch to and
/// that must behave as `go::<M>` (C04/C13: the dispatch path is not observable). With the
/// macro-generated `go_emit` / `go_check` this is `go::<M>` itself, so the statically composed path is
/// the code under proof as well.
pub trait GoVia<'src, I: Input<'src>, O, E: ParserExtra<'src, I>>: Parser<'src, I, O, E> {
    #[inline(always)]
    fn gov<M: Mode>(&self, inp: &mut InputRef<'src, '_, I, E>) -> PResult<M, O> {
        M::invoke(self, inp)
    }
}
impl<'src, I: Input<'src>, O, E: ParserExtra<'src, I>, P: Parser<'src, I, O, E> + ?Sized> GoVia<'src, I, O, E> for P {}

// ---------------------------------------------------------------------------------------------
// Contract stub for a child parser. May do anything the parser contract allows and logs it.
// ---------------------------------------------------------------------------------------------
/// Offer a failure the way a well-behaved parser does for the given error type.
pub fn offer<'p, I, Er, C>(inp: &mut InputRef<'static, 'p, I, X<Er, C>>, at: usize, e: Er)
where
    I: Input<'static, Cursor = usize>,
    Er: VE + Error<'static, I>,
    C: CtxId + 'static,
{
    if Er::ZST {
        // what `add_alt` does for zero-sized errors: unconditionally at the current cursor
        let c = inp.cursor;
        inp.errors.alt = Some(Located::at(c, e));
    } else {
        inp.add_alt_err(&at, e);
    }
}

pub struct AnyP<I, E> {
    pub slot: usize,
    /// stub never succeeds without consuming (K-prog precondition of repetition items)
    pub progress: bool,
    /// stub may leave an offer behind even when it succeeds
    pub ok_offers: bool,
    /// number of consecutive log entries reserved for successive calls of this stub (1 = a single
    /// entry that counts its calls)
    pub span: usize,
    /// the call logged in the last reserved entry must fail (bound of driver harnesses)
    pub bounded: bool,
    /// this stub runs on the inner input of a nested parse (length `state.len2`)
    pub inner: bool,
    pub _p: core::marker::PhantomData<fn(I, E)>,
}
impl<I, E> Clone for AnyP<I, E> {
    fn clone(&self) -> Self {
        *self
    }
}
impl<I, E> Copy for AnyP<I, E> {}
pub fn anyp<I, E>(slot: usize) -> AnyP<I, E> {
    AnyP {
        slot,
        progress: false,
        ok_offers: true,
        span: 1,
        bounded: false,
        inner: false,
        _p: core::marker::PhantomData,
    }
}
/// A stub that is invoked up to `span` times, logging call k in slot `slot + k`.
pub fn anyp_multi<I, E>(slot: usize, span: usize) -> AnyP<I, E> {
    AnyP {
        slot,
        progress: false,
        ok_offers: true,
        span,
        bounded: false,
        inner: false,
        _p: core::marker::PhantomData,
    }
}
pub fn anyp_prog<I, E>(slot: usize) -> AnyP<I, E> {
    AnyP {
        slot,
        progress: true,
        ok_offers: true,
        span: 1,
        bounded: false,
        inner: false,
        _p: core::marker::PhantomData,
    }
}
impl<I, Er, C> AnyP<I, X<Er, C>>
where
    I: Input<'static, Cursor = usize>,
    Er: VE + Error<'static, I>,
    C: CtxId + 'static,
{
    pub fn run<'p>(&self, inp: &mut InputRef<'static, 'p, I, X<Er, C>>, emit: bool) -> Result<u16, ()> {
        // log entry of this call: the first unused one of the reserved span, else the last (counting)
        let mut idx = self.slot;
        let mut k = 1;
        while k < self.span {
            if inp.state.log[idx].called && idx + 1 < SLOTS {
                idx += 1;
            }
            k += 1;
        }
        let kind = if ch::any_bool() { 0 } else { 2 };
        if self.bounded && idx + 1 == self.slot + self.span {
            ch::assume(kind != 0);
        }
        let len = if self.inner { inp.state.len2 } else { inp.state.len };
        let out = stub_step_len(inp, len, idx, self.slot, kind, self.progress, self.ok_offers, emit);
        if kind == 0 {
            Ok(out)
        } else {
            Err(())
        }
    }
}
/// One call of a contract stub: does anything the parser contract allows for the given outcome
/// (`kind`: 0 success / item, 1 "no more items", 2 failure) and logs it in `log[idx]`.
pub fn stub_step<'p, I, Er, C>(
    inp: &mut InputRef<'static, 'p, I, X<Er, C>>,
    idx: usize,
    idslot: usize,
    kind: u8,
    progress: bool,
    ok_offers: bool,
    emit: bool,
) -> u16
where
    I: Input<'static, Cursor = usize>,
    Er: VE + Error<'static, I>,
    C: CtxId + 'static,
{
    let len = inp.state.len;
    stub_step_len(inp, len, idx, idslot, kind, progress, ok_offers, emit)
}
pub fn stub_step_len<'p, I, Er, C>(
    inp: &mut InputRef<'static, 'p, I, X<Er, C>>,
    len: usize,
    idx: usize,
    idslot: usize,
    kind: u8,
    progress: bool,
    ok_offers: bool,
    emit: bool,
) -> u16
where
    I: Input<'static, Cursor = usize>,
    Er: VE + Error<'static, I>,
    C: CtxId + 'static,
{
    let entry = inp.cursor;
    let entry_sec = inp.errors.secondary.len();
    let entry_believed = inp.state.believed;
    let entry_alt_some = inp.errors.alt.is_some();
    vassert!(entry <= len, "FW/stub-entry-cursor-valid: child entered with a cursor beyond the input");
    ch::assume(entry <= len);
    let ok = kind == 0;
    let adv = ch::below(len - entry);
    if progress && ok {
        ch::assume(adv >= 1);
    }
    let newpos = entry + adv;
    if let Some(b) = inp.state.tail_bound {
        if ok {
            ch::assume(len - newpos <= b);
        }
    }
    inp.cursor = newpos;
    inp.state.believed = entry_believed.wrapping_add(adv);
    let emitted = if inp.state.quiet { 0 } else { ch::below(2) };
    let base = 100 + (idslot as u16) * 10;
    if emitted >= 1 {
        inp.emit(None, Er::mk(base, entry, newpos));
    }
    if emitted >= 2 {
        inp.emit(None, Er::mk(base + 1, entry, newpos));
    }
    let out = ch::any_u16();
    let offered = if kind == 2 { !(inp.state.silent_fail && ch::any_bool()) } else { ok_offers && ch::any_bool() };
    let mut fail_pos = 0;
    let mut fail_id = 0;
    if offered {
        let fo = ch::below(len - entry);
        fail_pos = entry + fo;
        fail_id = 200 + idslot as u16;
        offer(inp, fail_pos, Er::mk(fail_id, fail_pos, fail_pos));
    }
    let clock = inp.state.clock;
    inp.state.clock = clock.wrapping_add(1);
    let prev = inp.state.log[idx];
    inp.state.log[idx] = CallLog {
        called: true,
        calls: prev.calls.wrapping_add(1),
        order: clock,
        entry_pos: entry,
        entry_sec,
        entry_believed,
        entry_alt_some,
        ok,
        exit_pos: newpos,
        emitted,
        out,
        offered,
        fail_pos,
        fail_id,
        ctx_seen: inp.ctx.ctx_id(),
        mode_emit: emit,
        kind,
        rdepth: recurse_depth(),
    };
    if !inp.state.ext.is_null() {
        // SAFETY (harness): points at a local of the harness frame that outlives the parse
        unsafe { *inp.state.ext = inp.state.log[idx] };
    }
    out
}
impl<I, Er, C> Parser<'static, I, u16, X<Er, C>> for AnyP<I, X<Er, C>>
where
    I: Input<'static, Cursor = usize>,
    Er: VE + Error<'static, I>,
    C: CtxId + 'static,
{
    fn go<M: Mode>(&self, inp: &mut InputRef<'static, '_, I, X<Er, C>>) -> PResult<M, u16> {
        // M is only visible through `bind`: record whether the closure ran.
        let mut emit = false;
        let _probe = M::bind(|| emit = true);
        self.run(inp, emit).map(|o| M::bind(|| o))
    }
    fn go_emit(&self, inp: &mut InputRef<'static, '_, I, X<Er, C>>) -> PResult<Emit, u16> {
        self.go::<Emit>(inp)
    }
    fn go_check(&self, inp: &mut InputRef<'static, '_, I, X<Er, C>>) -> PResult<Check, u16> {
        self.go::<Check>(inp)
    }
}

// ---------------------------------------------------------------------------------------------
// Symbolic entry state and snapshots
// ---------------------------------------------------------------------------------------------
#[derive(Clone, Copy, Debug)]
pub struct S0 {
    pub len: usize,
    pub pos: usize,
    pub nsec: usize,
    pub alt: Option<(usize, u16)>,
}
/// Put the input into an arbitrary state satisfying the state invariant.
pub fn setup<'p, I, Er, C>(inp: &mut InputRef<'static, 'p, I, X<Er, C>>) -> S0
where
    I: Input<'static, Cursor = usize>,
    Er: VE + Error<'static, I>,
    C: CtxId + 'static,
{
    let len = inp.state.len;
    let pos = ch::below(len);
    inp.cursor = pos;
    inp.state.believed = pos;
    let nsec = ch::below(2);
    if nsec >= 1 {
        inp.emit(None, Er::mk(1, 0, 0));
    }
    if nsec >= 2 {
        inp.emit(None, Er::mk(2, 0, 0));
    }
    let mut alt = None;
    if ch::any_bool() {
        let ap = ch::below(len);
        inp.errors.alt = Some(Located::at(ap, Er::mk(50, ap, ap)));
        alt = Some((ap, 50));
    }
    S0 { len, pos, nsec, alt }
}

/// Run `f` on a fresh per-parse owner over a symbolic input of symbolic length, from a symbolic
/// entry state.
pub fn run<T, Er, C, R>(f: impl for<'p> FnOnce(&mut IR<'p, T, Er, C>, S0) -> R) -> R
where
    T: SymTok,
    Er: VE + Error<'static, SymIn<T>>,
    C: CtxId + Default + 'static,
{
    let len = ch::any_usize();
    let mut st = VState::new(len);
    let mut own = InputOwn::<SymIn<T>, X<Er, C>>::new_state(SymIn::new(len), &mut st);
    let mut inp = own.as_ref_start();
    let s0 = setup(&mut inp);
    f(&mut inp, s0)
}

pub const SECMAX: usize = 12;
#[derive(Clone, Copy, Debug, PartialEq, Eq)]
pub struct Snap {
    pub pos: usize,
    pub believed: usize,
    pub nsec: usize,
    pub sec: [u16; SECMAX],
    pub alt: Option<(usize, u16)>,
    /// number of merges that produced the pending error
    pub alt_merges: u8,
}
pub fn snap<'p, I, Er, C>(inp: &mut InputRef<'static, 'p, I, X<Er, C>>) -> Snap
where
    I: Input<'static, Cursor = usize>,
    Er: VE + Error<'static, I>,
    C: CtxId + 'static,
{
    let n = inp.errors.secondary.len();
    let mut sec = [0u16; SECMAX];
    // Contents of the heap buffer are read only natively: under CBMC a single read of the buffer costs
    // >20M SAT variables (realloc/memcpy model). The proof uses the lengths; see DESIGN "stack discipline".
    #[cfg(not(kani))]
    {
        let mut k = 0;
        while k < SECMAX {
            if k < n {
                sec[k] = inp.errors.secondary[k].err.id();
            }
            k += 1;
        }
    }
    Snap {
        pos: inp.cursor,
        believed: inp.state.believed,
        nsec: n,
        sec,
        alt: inp.errors.alt.as_ref().map(|a| (a.pos, a.err.id())),
        alt_merges: inp.errors.alt.as_ref().map(|a| a.err.merges()).unwrap_or(0),
    }
}
pub fn lg<'p, I, Er, C>(inp: &mut InputRef<'static, 'p, I, X<Er, C>>, slot: usize) -> CallLog
where
    I: Input<'static>,
    Er: VE + Error<'static, I>,
    C: CtxId + 'static,
{
    inp.state.log[slot]
}

/// Expected list of emitted-error ids: consecutive segments `(first id, count)`; the pre-existing
/// errors form the first segment, each kept child contributes one segment in call order.
/// (Segments instead of an id array keep every array index concrete for the solver.)
pub const SEGS: usize = 7;
#[derive(Clone, Copy)]
pub struct SecSpec {
    pub seg: [(u16, usize); SEGS],
    pub k: usize,
}
impl SecSpec {
    pub fn pre(s0: &S0) -> SecSpec {
        let mut seg = [(0u16, 0usize); SEGS];
        seg[0] = (1, s0.nsec);
        SecSpec { seg, k: 1 }
    }
    pub fn ids(mut self, first: u16, count: usize) -> SecSpec {
        if self.k < SEGS {
            self.seg[self.k] = (first, count);
        }
        self.k += 1;
        self
    }
    /// append the emissions of the child logged in `l` (stub in slot `slot`)
    pub fn child(self, slot: usize, l: &CallLog) -> SecSpec {
        self.ids(100 + (slot as u16) * 10, l.emitted)
    }
    pub fn total(&self) -> usize {
        let mut t = 0usize;
        unroll!(j in [0, 1, 2, 3, 4, 5, 6] {
            if j < self.k {
                t = t.wrapping_add(self.seg[j].1);
            }
        });
        t
    }
    pub fn expected_at(&self, i: usize) -> u16 {
        let mut off = 0usize;
        let mut r = 0u16;
        let mut j = 0;
        while j < SEGS {
            if j < self.k {
                let (first, cnt) = self.seg[j];
                if i >= off && i - off < cnt {
                    r = first.wrapping_add((i - off) as u16);
                }
                off = off.wrapping_add(cnt);
            }
            j += 1;
        }
        r
    }
    #[cfg(kani)]
    fn ids_match(&self, _s: &Snap) -> bool {
        true
    }
    #[cfg(not(kani))]
    fn ids_match(&self, s: &Snap) -> bool {
        let total = self.total();
        let mut ok = true;
        let mut i = 0;
        while i < SECMAX {
            if i < total && s.sec[i] != self.expected_at(i) {
                ok = false;
            }
            i += 1;
        }
        ok
    }
    /// the emitted list in `s` is exactly this one
    pub fn holds(&self, s: &Snap, zst: bool) -> bool {
        let total = self.total();
        if s.nsec != total || total > SECMAX || self.k > SEGS {
            return false;
        }
        zst || self.ids_match(s)
    }
    /// this list is a prefix of the emitted list in `s`
    pub fn prefix_of(&self, s: &Snap, zst: bool) -> bool {
        let total = self.total();
        if s.nsec < total || total > SECMAX || self.k > SEGS {
            return false;
        }
        zst || self.ids_match(s)
    }
}

/// Specification of `add_alt_err` / the priority rule: the pending error after offering `(at, id)`.
pub fn offer_spec(alt: Option<(usize, u16)>, at: usize, id: u16) -> Option<(usize, u16)> {
    match alt {
        None => Some((at, id)),
        Some((p, i)) => {
            if p > at {
                Some((p, i))
            } else if p == at {
                Some((p, i)) // merged: keeps the identity of the earlier error
            } else {
                Some((at, id))
            }
        }
    }
}

/// The pending primary error with its position, in full (recording error type only).
pub fn alt_full<'p, I, C>(inp: &mut InputRef<'static, 'p, I, X<VErr, C>>) -> Option<(usize, VErr)>
where
    I: Input<'static, Cursor = usize>,
    VErr: Error<'static, I>,
    C: CtxId + 'static,
{
    inp.errors.alt.as_ref().map(|a| (a.pos, a.err))
}

/// Specification of the pending error after a one-token matcher built by the library failed at
/// `pos0` (entry state `s0`): priority rule + truthful span + truthful `found`.
/// Returns (priority rule holds, span is the offending token / empty at end, found is truthful).
pub fn prim_alt_spec(s0: &S0, alt: Option<(usize, VErr)>, tok_here: Option<u32>) -> (bool, bool, bool) {
    let at = s0.pos;
    let end = if at < s0.len { at + 1 } else { at };
    match (s0.alt, alt) {
        (_, None) => (false, false, false),
        (None, Some((p, e))) => (
            p == at && e.id == 0 && e.merges == 0,
            e.start == at && e.end == end,
            e.found == tok_here,
        ),
        (Some((ap, aid)), Some((p, e))) => {
            if ap > at {
                (p == ap && e.id == aid && e.merges == 0 && e.replaced == 0, true, true)
            } else if ap == at {
                (p == ap && e.id == aid && e.merges == 1 && e.merged_id == 0, true, true)
            } else {
                (
                    p == at && e.id == 0 && e.replaced == 1,
                    e.start == at && e.end == end,
                    e.found == tok_here,
                )
            }
        }
    }
}

/// The failures offered during a run, as (position, error id): the error pending at entry, the offers
/// of the children (from their logs) and errors offered by the combinator itself. The specification of
/// the pending error (C06): it sits at the furthest offered position, it is one of the errors offered
/// there, and every other error offered there has been merged into it (merge order is not prescribed).
pub const OFFERS: usize = 6;
#[derive(Clone, Copy)]
pub struct Offers {
    pub n: usize,
    pub o: [(usize, u16); OFFERS],
}
impl Offers {
    pub fn none() -> Offers {
        Offers { n: 0, o: [(0, 0); OFFERS] }
    }
    pub fn entry(s0: &S0) -> Offers {
        match s0.alt {
            Some((p, i)) => Offers::none().at(p, i),
            None => Offers::none(),
        }
    }
    pub fn of(s0: &S0, ls: &[&CallLog]) -> Offers {
        let mut o = Offers::entry(s0);
        let mut k = 0;
        while k < ls.len() {
            o = o.log(ls[k]);
            k += 1;
        }
        o
    }
    pub fn at(mut self, pos: usize, id: u16) -> Offers {
        if self.n < OFFERS {
            self.o[self.n] = (pos, id);
        }
        self.n += 1;
        self
    }
    pub fn log(self, l: &CallLog) -> Offers {
        if l.called && l.offered {
            self.at(l.fail_pos, l.fail_id)
        } else {
            self
        }
    }
    pub fn max_pos(&self) -> Option<usize> {
        let mut m: Option<usize> = None;
        unroll!(k in [0, 1, 2, 3, 4, 5] {
            if k < self.n {
                let p = self.o[k].0;
                m = match m {
                    Some(q) if q >= p => Some(q),
                    _ => Some(p),
                };
            }
        });
        m
    }
    pub fn matches(&self, s: &Snap) -> bool {
        if self.n > OFFERS {
            return false;
        }
        match (self.max_pos(), s.alt) {
            (None, None) => true,
            (Some(m), Some((p, id))) => {
                let mut cnt = 0usize;
                let mut member = false;
                unroll!(k in [0, 1, 2, 3, 4, 5] {
                    if k < self.n && self.o[k].0 == m {
                        cnt += 1;
                        if self.o[k].1 == id {
                            member = true;
                        }
                    }
                });
                p == m && member && s.alt_merges as usize == cnt - 1
            }
            _ => false,
        }
    }
}

// ---------------------------------------------------------------------------------------------
// Contract stub for a child *iterable* parser: each `next` call yields an item, reports "no more
// items", or fails; call k is logged in slot `slot + k`. At most `span - 1` items are yielded (the
// bound of the driver harnesses that use it); step harnesses use a single call.
// ---------------------------------------------------------------------------------------------
pub struct AnyIt<I, E> {
    pub slot: usize,
    pub span: usize,
    pub progress: bool,
    pub _p: core::marker::PhantomData<fn(I, E)>,
}
impl<I, E> Clone for AnyIt<I, E> {
    fn clone(&self) -> Self {
        *self
    }
}
impl<I, E> Copy for AnyIt<I, E> {}
pub fn anyit<I, E>(slot: usize, span: usize) -> AnyIt<I, E> {
    AnyIt { slot, span, progress: true, _p: core::marker::PhantomData }
}
impl<I, Er, C> IterParser<'static, I, u16, X<Er, C>> for AnyIt<I, X<Er, C>>
where
    I: Input<'static, Cursor = usize>,
    Er: VE + Error<'static, I>,
    C: CtxId + 'static,
{
    type IterState<M: Mode> = usize;
    fn make_iter<M: Mode>(&self, inp: &mut InputRef<'static, '_, I, X<Er, C>>) -> PResult<Emit, usize> {
        inp.state.reg[7] = inp.state.reg[7].wrapping_add(1); // ghost: number of make_iter calls
        Ok(0)
    }
    fn next<M: Mode>(&self, inp: &mut InputRef<'static, '_, I, X<Er, C>>, st: &mut usize) -> IPResult<M, u16> {
        let k = *st;
        *st = k.wrapping_add(1);
        let last = k + 1 >= self.span;
        let idx = if last { self.slot + self.span - 1 } else { self.slot + k };
        let kind = ch::below(2) as u8;
        if last {
            // bound of the harness: the last logged call does not yield another item
            ch::assume(kind != 0);
        }
        let mut emit = false;
        let _probe = M::bind(|| emit = true);
        let out = stub_step(inp, idx, self.slot, kind, self.progress, true, emit);
        match kind {
            0 => Ok(Some(M::bind(|| out))),
            1 => Ok(None),
            _ => Err(()),
        }
    }
}

// ---------------------------------------------------------------------------------------------
// The symbolic input as a text input (the trait is sealed; the harness is compiled in-crate).
// ---------------------------------------------------------------------------------------------
impl<T> Sealed for SymIn<T> {}
impl<T: SymTok + crate::text::Char> StrInput<'static> for SymIn<T> {
    fn stringify(_slice: SymSlice) -> alloc::string::String {
        alloc::string::String::new()
    }
}
