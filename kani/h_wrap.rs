// C13 / C12 / C04: wrappers and indirections forward to the wrapped parser and add no state of their
// own: &T, Box, Rc, Arc, Boxed (dyn), Either, Cache::get, Recursive (declare/define and recursive()),
// Ext (separate parse / check paths).

use super::fw::*;
use super::h_comb::VEr;
use super::h_comb2::unary_spec;
use crate::extension::v1::{Ext, ExtParser};
use crate::prelude::*;
use crate::private::{Check, Emit, Mode};
use crate::recursive::Recursive;
use crate::Parser;
use alloc::boxed::Box;
use alloc::rc::Rc;
use alloc::sync::Arc;

type Stub = AnyP<SymIn<u8>, X<VS>>;

pub struct StubCacher;
impl crate::cache::Cached for StubCacher {
    type Parser<'src> = Stub;
    fn make_parser<'src>(self) -> Self::Parser<'src> {
        anyp_multi::<SymIn<u8>, X<VS>>(0, 2)
    }
}

macro_rules! forward_asserts {
    ($c:literal, $n:literal, $inp:expr, $s0:expr, $r:expr) => {{
        let s = snap($inp);
        let a = lg($inp, 0);
        let v = unary_spec(&$s0, &s, &a, $r.is_ok(), false);
        vassert!(v[0], concat!($c, $n, ".wrapped-parser-runs-exactly-once-from-the-caller-state"));
        vassert!(v[1], concat!($c, $n, ".same-acceptance-as-the-wrapped-parser"));
        vassert!(v[2], concat!($c, $n, ".same-consumption-as-the-wrapped-parser"));
        vassert!(v[3], concat!($c, $n, ".same-emissions-as-the-wrapped-parser"));
        vassert!(v[4], concat!("C20/", $n, ".failure-leaves-pending-error"));
        vassert!(Offers::of(&$s0, &[&a]).matches(&s), concat!($c, $n, ".same-pending-error-as-the-wrapped-parser"));
        if a.ok {
            vcover!(true, concat!($n, ": succeeds"));
            vassert!(ok_with::<M, _>(&$r, a.out), concat!($c, $n, ".same-output-as-the-wrapped-parser"));
        } else {
            vcover!(true, concat!($n, ": fails"));
        }
    }};
}

pub fn h_wrap<M: VMode, const KIND: usize>() {
    run::<u8, VS, (), _>(|inp, s0| {
        let p: Stub = anyp::<SymIn<u8>, X<VS>>(0);
        let r = match KIND {
            0 => (&p).gov::<M>(inp),
            1 => Box::new(p).gov::<M>(inp),
            2 => Rc::new(p).gov::<M>(inp),
            3 => Arc::new(p).gov::<M>(inp),
            4 => p.boxed().gov::<M>(inp),
            5 => p.boxed().clone().boxed().gov::<M>(inp),
            6 => either::Either::<Stub, Stub>::Left(p).gov::<M>(inp),
            7 => either::Either::<Stub, Stub>::Right(p).gov::<M>(inp),
            _ => (&&p).gov::<M>(inp),
        };
        forward_asserts!("C13/", "wrapper", inp, s0, r);
    });
}

/// A parse through a Cache, then a second parse through the same Cache on the state the first one
/// left: each is one run of the stored parser (calls logged in slots 0 and 1), nothing is remembered.
pub fn h_cache<M: VMode>() {
    run::<u8, VS, (), _>(|inp, s0| {
        let cache = crate::cache::Cache::new(StubCacher);
        let r1 = cache.get().gov::<M>(inp);
        let a = lg(inp, 0);
        let s1 = snap(inp);
        vassert!(a.called && a.calls == 1 && a.entry_pos == s0.pos && a.entry_sec == s0.nsec, "C13/cache.first-parse-runs-the-stored-parser-once");
        vassert!(r1.is_ok() == a.ok && ok_with::<M, _>(&r1, a.out) == a.ok, "C13/cache.first-parse-result-is-the-stored-parser-result");
        let r2 = cache.get().gov::<M>(inp);
        let b = lg(inp, 1);
        vcover!(a.ok && b.ok, "cache: two successful parses");
        vassert!(b.called && b.calls == 1 && b.entry_pos == s1.pos && b.entry_sec == s1.nsec, "C13/cache.second-parse-is-a-fresh-run-of-the-stored-parser");
        vassert!(r2.is_ok() == b.ok && ok_with::<M, _>(&r2, b.out) == b.ok, "C13/cache.second-parse-result-is-the-stored-parser-result");
        let p1: *const Stub = cache.get();
        let p2: *const Stub = cache.get();
        vassert!(p1 == p2, "C13/cache.get-hands-out-the-stored-parser");
    });
}

/// Recursive::declare + define: the declared parser behaves as its definition.
pub fn h_recursive_indirect<M: VMode>() {
    run::<u8, VS, (), _>(|inp, s0| {
        let mut rec = Recursive::declare();
        // under the model checker `define` is entered through the cfg-guarded hook (no caller location)
        #[cfg(kani)]
        let defined = rec.verif_try_define(anyp::<SymIn<u8>, X<VS>>(0)).is_ok();
        #[cfg(not(kani))]
        let defined = {
            rec.define(anyp::<SymIn<u8>, X<VS>>(0));
            true
        };
        vassert!(defined, "C12/recursive.first-definition-is-accepted");
        let handle = rec.clone();
        drop(rec);
        let r = handle.gov::<M>(inp);
        vassert2!(lg(inp, 0).rdepth == 1 && recurse_depth() == 0, "C12/recursive_declared.definition-is-entered-through-the-stack-growth-guard", "C20/recursive_declared.definition-is-entered-through-the-stack-growth-guard");
        forward_asserts!("C12/", "recursive_declared", inp, s0, r);
    });
}
/// Mutually recursive declarations: `a` is defined first and holds a clone of `b` taken *before* `b` is
/// defined; `b`'s original handle is dropped once both are defined. A clone is as good as the original
/// ("may be cloned, boxed and dropped freely once defined"), so `a` still reaches `b`'s definition.
pub fn h_recursive_mutual<M: VMode>() {
    run::<u8, VS, (), _>(|inp, s0| {
        let mut a = Recursive::declare();
        let mut b = Recursive::declare();
        let b_early = b.clone();
        #[cfg(kani)]
        let defined = a.verif_try_define(b_early).is_ok() && b.verif_try_define(anyp::<SymIn<u8>, X<VS>>(0)).is_ok();
        #[cfg(not(kani))]
        let defined = {
            a.define(b_early);
            b.define(anyp::<SymIn<u8>, X<VS>>(0));
            true
        };
        vassert!(defined, "C12/recursive.first-definition-is-accepted");
        drop(b);
        let r = a.gov::<M>(inp);
        // a -> b -> definition: every hop of a declared parser (all handles here are owning ones) is guarded
        vassert2!(lg(inp, 0).rdepth == 2 && recurse_depth() == 0, "C12/recursive_mutual.every-hop-is-entered-through-the-stack-growth-guard", "C20/recursive_mutual.every-hop-is-entered-through-the-stack-growth-guard");
        forward_asserts!("C12/", "recursive_mutual", inp, s0, r);
        // C13: a clone is as good as the value it was cloned from - also a clone taken before the definition,
        // after the original handle is gone
        forward_asserts!("C13/", "recursive_clone_taken_before_the_definition", inp, s0, r);
    });
}
/// recursive(|this| definition): the parser behaves as its definition (self-reference unused here).
pub fn h_recursive_direct<M: VMode>() {
    run::<u8, VS, (), _>(|inp, s0| {
        let rec = recursive(|this| {
            let _unused = this.clone();
            anyp::<SymIn<u8>, X<VS>>(0)
        });
        let handle = rec.clone();
        drop(rec);
        let r = handle.gov::<M>(inp);
        vassert2!(lg(inp, 0).rdepth == 1 && recurse_depth() == 0, "C12/recursive.definition-is-entered-through-the-stack-growth-guard", "C20/recursive.definition-is-entered-through-the-stack-growth-guard");
        forward_asserts!("C12/", "recursive", inp, s0, r);
    });
}
/// recursive(|this| a.then(this.or_not())): one level of unrolling when the inner `a` fails on the
/// second visit (bounded: the stub's second call must fail).
pub fn h_recursive_unroll<M: VMode>() {
    run::<u8, VS, (), _>(|inp, s0| {
        let mut a = anyp_multi::<SymIn<u8>, X<VS>>(0, 2);
        a.bounded = true;
        a.progress = true;
        let rec = recursive(|this| a.then(this.or_not()).map(|(x, rest): (u16, Option<u16>)| x.wrapping_mul(31).wrapping_add(rest.unwrap_or(7))));
        let r = rec.gov::<M>(inp);
        let s = snap(inp);
        let (a0, a1) = (lg(inp, 0), lg(inp, 1));
        vassert!(a0.called && a0.entry_pos == s0.pos, "C12/recursive.definition-runs-from-entry");
        vassert2!(a0.rdepth == 1, "C12/recursive.definition-is-entered-through-the-stack-growth-guard", "C20/recursive.definition-is-entered-through-the-stack-growth-guard");
        vassert!(r.is_ok() == a0.ok, "C12/recursive.accepts-as-the-unrolled-grammar");
        if a0.ok {
            vcover!(true, "recursive: one level");
            // the unrolling a.then((a.then(..)).or_not()): second level tried right after the first `a`, fails (bound), consumes nothing
            vassert!(a1.called && a1.entry_pos == a0.exit_pos && !a1.ok, "C12/recursive.self-reference-re-enters-the-definition-at-the-current-position");
            vassert2!(a1.rdepth == 2, "C12/recursive.each-level-of-self-reference-grows-the-stack-guard-nesting", "C20/recursive.each-level-of-self-reference-grows-the-stack-guard-nesting");
            vassert!(s.pos == a0.exit_pos && s.believed == s.pos, "C12/recursive.consumes-as-the-unrolled-grammar");
            vassert!(ok_with::<M, _>(&r, a0.out.wrapping_mul(31).wrapping_add(7)), "C12/recursive.output-of-the-unrolled-grammar");
            vassert!(SecSpec::pre(&s0).child(0, &a0).holds(&s, false), "C05/recursive.abandoned-recursive-attempt-leaves-no-emissions");
        }
    });
}

/// Defining a declared parser twice is refused (the refusal is what `define` turns into its panic),
/// and the first definition stays in force.
pub fn h_define_twice<M: VMode>() {
    run::<u8, VS, (), _>(|inp, s0| {
        let mut rec: Recursive<crate::recursive::Indirect<'static, 'static, SymIn<u8>, u16, X<VS>>> = Recursive::declare();
        #[cfg(kani)]
        let (first, second) = (rec.verif_try_define(anyp::<SymIn<u8>, X<VS>>(0)).is_ok(), rec.verif_try_define(anyp::<SymIn<u8>, X<VS>>(1)).is_ok());
        #[cfg(not(kani))]
        let (first, second) = {
            rec.define(anyp::<SymIn<u8>, X<VS>>(0));
            let r = std::panic::catch_unwind(std::panic::AssertUnwindSafe(|| rec.define(anyp::<SymIn<u8>, X<VS>>(1))));
            (true, r.is_ok())
        };
        vcover!(true, "recursive: defined twice");
        vassert!(first, "C12/recursive.first-definition-is-accepted");
        vassert!(!second, "C12/recursive.second-definition-is-refused");
        let r = rec.gov::<M>(inp);
        let (a, b) = (lg(inp, 0), lg(inp, 1));
        vassert!(a.called && !b.called && r.is_ok() == a.ok, "C12/recursive.first-definition-stays-in-force");
        let _ = s0;
    });
}

/// Ext: a user parser with separate parse / check paths (default check = parse and drop the value).
pub struct ExtStub;
impl ExtParser<'static, SymIn<u8>, u16, X<VS>> for ExtStub {
    fn parse(&self, inp: &mut IR<'_, u8, VS>) -> Result<u16, VS> {
        let len = inp.state.len;
        let adv = ch::below(len - inp.cursor);
        inp.cursor += adv;
        inp.state.believed = inp.state.believed.wrapping_add(adv);
        inp.state.reg[0] = inp.cursor;
        inp.state.reg[1] = inp.state.reg[1].wrapping_add(1);
        if ch::any_bool() {
            inp.state.flag[0] = true;
            Ok(9)
        } else {
            Err(VS { id: 77, merges: 0, merged_id: 0 })
        }
    }
}
pub fn h_ext<M: VMode>() {
    run::<u8, VS, (), _>(|inp, s0| {
        let r = Ext(ExtStub).gov::<M>(inp);
        let s = snap(inp);
        let ok = inp.state.flag[0];
        vassert!(inp.state.reg[1] == 1, "C04/ext.user-parser-runs-exactly-once-in-every-mode");
        vassert!(r.is_ok() == ok, "C04/ext.succeeds-iff-user-parser-succeeds-in-every-mode");
        vassert!(s.pos == inp.state.reg[0] && s.nsec == s0.nsec, "C04/ext.position-and-errors-as-the-user-parser-left-them");
        if ok {
            vcover!(true, "ext: ok");
            vassert!(ok_with::<M, _>(&r, 9u16), "C01/ext.output-is-user-value");
        } else {
            vcover!(true, "ext: err");
            vassert!(Offers::entry(&s0).at(s0.pos, 77).matches(&s), "C06/ext.user-error-offered-at-entry-position-by-priority");
        }
    });
}

harnesses! {
    wrap_ref_emit = h_wrap::<Emit, 0>;
    wrap_ref_check = h_wrap::<Check, 0>;
    wrap_box_emit = h_wrap::<Emit, 1>;
    wrap_rc_emit = h_wrap::<Emit, 2>;
    wrap_arc_emit = h_wrap::<Emit, 3>;
    wrap_boxed_emit = h_wrap::<Emit, 4>;
    wrap_boxed_check = h_wrap::<Check, 4>;
    wrap_boxed_clone_emit = h_wrap::<Emit, 5>;
    wrap_either_left_emit = h_wrap::<Emit, 6>;
    wrap_either_right_check = h_wrap::<Check, 7>;
    wrap_refref_emit = h_wrap::<Emit, 8>;
    cache_emit = h_cache::<Emit>;
    cache_check = h_cache::<Check>;
    recursive_indirect_emit = h_recursive_indirect::<Emit>;
    recursive_indirect_check = h_recursive_indirect::<Check>;
    recursive_mutual_emit = h_recursive_mutual::<Emit>;
    recursive_mutual_check = h_recursive_mutual::<Check>;
    recursive_direct_emit = h_recursive_direct::<Emit>;
    recursive_direct_check = h_recursive_direct::<Check>;
    #[kani::unwind(4)]
    recursive_unroll_emit_b2 = h_recursive_unroll::<Emit>;
    recursive_define_twice = h_define_twice::<Emit>;
    ext_emit = h_ext::<Emit>;
    ext_check = h_ext::<Check>;
}
