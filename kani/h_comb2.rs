// Contracts of n-ary sequence / choice forms and of the output-transforming wrappers
// (group, choice, delimited_by, padded_by, map, to, ignored, map_with, to_span, to_slice, validate,
// filter, try_map, try_map_with), proved for the real `go` bodies with contract stubs as children.

use super::fw::*;
use super::h_comb::VEr;
use crate::prelude::*;
use crate::private::{Check, Emit, Mode};
use crate::Parser;

/// PEG sequence over n children given as (stub slot, log of the call).
/// v[0] first child runs once from the entry state; v[1] each later child runs iff all earlier ones
/// succeeded, exactly where the previous one stopped, seeing its emissions; v[2] nothing runs after the
/// first failure; v[3] the sequence succeeds iff every part does; v[4] final position / inspector;
/// v[5] emissions of all parts in order; v[6] failure leaves a pending error; v[7] failure keeps the
/// earlier emissions.
pub fn seq_spec(s0: &S0, s: &Snap, ls: &[(usize, CallLog)], r_ok: bool, zst: bool) -> [bool; 8] {
    let mut v = [true; 8];
    let n = ls.len();
    let mut alive = true; // all earlier parts succeeded
    let mut pos = s0.pos;
    let mut nsec = s0.nsec;
    let mut spec = SecSpec::pre(s0);
    let mut k = 0;
    while k < n {
        let (slot, l) = ls[k];
        if alive {
            let ran = l.called && l.calls == 1 && l.entry_pos == pos && l.entry_sec == nsec && l.entry_believed == pos && l.order as usize == k;
            if k == 0 {
                v[0] = ran;
            } else if !ran {
                v[1] = false;
            }
            if l.ok {
                pos = l.exit_pos;
                nsec = nsec.wrapping_add(l.emitted);
                spec = spec.child(slot, &l);
            } else {
                alive = false;
            }
        } else if l.called {
            v[2] = false;
        }
        k += 1;
    }
    v[3] = r_ok == alive;
    if alive {
        v[4] = s.pos == pos && s.believed == s.pos;
        v[5] = spec.holds(s, zst);
    } else {
        v[6] = s.alt.is_some();
        v[7] = SecSpec::pre(s0).prefix_of(s, zst);
    }
    v
}
macro_rules! seqn_asserts {
    ($n:literal, $v:expr) => {
        vassert!($v[0], concat!("C01/", $n, ".first-part-runs-once-from-entry"));
        vassert!($v[1], concat!("C01/", $n, ".each-part-runs-where-the-previous-stopped"));
        vassert!($v[2], concat!("C01/", $n, ".nothing-runs-after-first-failure"));
        vassert!($v[3], concat!("C01/", $n, ".succeeds-iff-every-part-succeeds"));
        vassert!($v[4], concat!("C01/", $n, ".ends-where-last-part-stopped"));
        vassert!($v[5], concat!("C05/", $n, ".emissions-of-all-parts-in-order"));
        vassert!($v[6], concat!("C20/", $n, ".failure-leaves-pending-error"));
        vassert!($v[7], concat!("C05/", $n, ".failure-keeps-earlier-emissions"));
    };
}

pub fn h_group2<M: VMode, Er: VEr>() {
    run::<u8, Er, (), _>(|inp, s0| {
        let anyp = |k| anyp::<SymIn<u8>, X<Er>>(k);
        let r = group((anyp(0), anyp(1))).gov::<M>(inp);
        let s = snap(inp);
        let (a, b) = (lg(inp, 0), lg(inp, 1));
        let v = seq_spec(&s0, &s, &[(0, a), (1, b)], r.is_ok(), Er::ZST);
        seqn_asserts!("group2", v);
        if a.ok && b.ok {
            vcover!(true, "group2: both succeed");
            vassert!(ok_with::<M, _>(&r, (a.out, b.out)), "C01/group2.outputs-in-order");
        }
        vcover!(a.ok && !b.ok, "group2: second fails");
        if !Er::ZST {
            vassert!(Offers::of(&s0, &[&a, &b]).matches(&s), "C06/group2.pending-error-is-furthest-offer");
        }
    });
}
pub fn h_group3<M: VMode, Er: VEr>() {
    run::<u8, Er, (), _>(|inp, s0| {
        let anyp = |k| anyp::<SymIn<u8>, X<Er>>(k);
        let r = group((anyp(0), anyp(1), anyp(2))).gov::<M>(inp);
        let s = snap(inp);
        let (a, b, c) = (lg(inp, 0), lg(inp, 1), lg(inp, 2));
        let v = seq_spec(&s0, &s, &[(0, a), (1, b), (2, c)], r.is_ok(), Er::ZST);
        seqn_asserts!("group3", v);
        if a.ok && b.ok && c.ok {
            vcover!(true, "group3: all succeed");
            vassert!(ok_with::<M, _>(&r, (a.out, b.out, c.out)), "C01/group3.outputs-in-order");
        }
        vcover!(a.ok && b.ok && !c.ok, "group3: third fails");
        vcover!(a.ok && !b.ok, "group3: second fails");
        if !Er::ZST {
            vassert!(Offers::of(&s0, &[&a, &b, &c]).matches(&s), "C06/group3.pending-error-is-furthest-offer");
        }
    });
}
pub fn h_delimited_by<M: VMode, Er: VEr>() {
    run::<u8, Er, (), _>(|inp, s0| {
        let anyp = |k| anyp::<SymIn<u8>, X<Er>>(k);
        // slot 0 = open, 1 = inner, 2 = close
        let r = anyp(1).delimited_by(anyp(0), anyp(2)).gov::<M>(inp);
        let s = snap(inp);
        let (o, a, c) = (lg(inp, 0), lg(inp, 1), lg(inp, 2));
        let v = seq_spec(&s0, &s, &[(0, o), (1, a), (2, c)], r.is_ok(), Er::ZST);
        seqn_asserts!("delimited_by", v);
        if o.ok && a.ok && c.ok {
            vcover!(true, "delimited_by: all succeed");
            vassert!(ok_with::<M, _>(&r, a.out), "C01/delimited_by.output-of-inner");
        }
        vcover!(o.ok && a.ok && !c.ok, "delimited_by: close fails");
        if !Er::ZST {
            vassert!(Offers::of(&s0, &[&o, &a, &c]).matches(&s), "C06/delimited_by.pending-error-is-furthest-offer");
        }
    });
}
pub fn h_padded_by<M: VMode, Er: VEr>() {
    run::<u8, Er, (), _>(|inp, s0| {
        // the padding stub is invoked twice: calls logged in slots 0 and 1; inner in slot 2
        let pad = anyp_multi::<SymIn<u8>, X<Er>>(0, 2);
        let r = anyp::<SymIn<u8>, X<Er>>(2).padded_by(pad).gov::<M>(inp);
        let s = snap(inp);
        let (p1, p2, a) = (lg(inp, 0), lg(inp, 1), lg(inp, 2));
        let v = seq_spec(&s0, &s, &[(0, p1), (2, a), (0, p2)], r.is_ok(), Er::ZST);
        seqn_asserts!("padded_by", v);
        if p1.ok && a.ok && p2.ok {
            vcover!(true, "padded_by: all succeed");
            vassert!(ok_with::<M, _>(&r, a.out), "C01/padded_by.output-of-inner");
        }
        vcover!(p1.ok && a.ok && !p2.ok, "padded_by: trailing padding fails");
        if !Er::ZST {
            vassert!(Offers::of(&s0, &[&p1, &a, &p2]).matches(&s), "C06/padded_by.pending-error-is-furthest-offer");
        }
    });
}

/// PEG ordered choice over n alternatives.
/// v[0] alternative k is tried iff all earlier ones failed, exactly once; v[1] every tried alternative
/// starts from the entry position; v[2] ... with the entry emissions (abandoned ones left no trace);
/// v[3] ... with the inspector rewound; v[4] result = first success, fails iff all fail; v[5] position
/// of the chosen alternative; v[6] emissions of the chosen alternative only; v[7] failure leaves a
/// pending error and the earlier emissions.
pub fn choice_spec(s0: &S0, s: &Snap, ls: &[(usize, CallLog)], r_ok: bool, zst: bool) -> ([bool; 8], Option<usize>) {
    let mut v = [true; 8];
    let mut chosen: Option<usize> = None;
    let mut k = 0;
    while k < ls.len() {
        let (_slot, l) = ls[k];
        if chosen.is_none() {
            if !(l.called && l.calls == 1 && l.order as usize == k) {
                v[0] = false;
            }
            if l.entry_pos != s0.pos {
                v[1] = false;
            }
            if l.entry_sec != s0.nsec {
                v[2] = false;
            }
            if l.entry_believed != s0.pos {
                v[3] = false;
            }
            if l.ok {
                chosen = Some(k);
            }
        } else if l.called {
            v[0] = false;
        }
        k += 1;
    }
    v[4] = r_ok == chosen.is_some();
    match chosen {
        Some(k) => {
            let (slot, l) = ls[k];
            v[5] = s.pos == l.exit_pos && s.believed == s.pos;
            v[6] = SecSpec::pre(s0).child(slot, &l).holds(s, zst);
        }
        None => {
            v[7] = s.alt.is_some() && SecSpec::pre(s0).prefix_of(s, zst);
        }
    }
    (v, chosen)
}
macro_rules! choice_asserts {
    ($n:literal, $v:expr) => {
        vassert!($v[0], concat!("C01/", $n, ".alternative-tried-iff-all-earlier-failed-never-revisited"));
        vassert!($v[1], concat!("C01/", $n, ".every-alternative-starts-at-entry-position"));
        vassert!($v[2], concat!("C05/", $n, ".abandoned-alternatives-leave-no-emissions"));
        vassert!($v[3], concat!("C18/", $n, ".inspector-rewound-before-each-alternative"));
        vassert!($v[4], concat!("C01/", $n, ".succeeds-iff-some-alternative-succeeds"));
        vassert!($v[5], concat!("C01/", $n, ".consumes-what-chosen-alternative-consumed"));
        vassert!($v[6], concat!("C05/", $n, ".kept-alternative-emissions-exact"));
        vassert!($v[7], concat!("C20/", $n, ".failure-leaves-pending-error-and-earlier-emissions"));
    };
}
pub fn h_choice3<M: VMode, Er: VEr>() {
    run::<u8, Er, (), _>(|inp, s0| {
        let anyp = |k| anyp::<SymIn<u8>, X<Er>>(k);
        let r = choice((anyp(0), anyp(1), anyp(2))).gov::<M>(inp);
        let s = snap(inp);
        let (a, b, c) = (lg(inp, 0), lg(inp, 1), lg(inp, 2));
        let (v, chosen) = choice_spec(&s0, &s, &[(0, a), (1, b), (2, c)], r.is_ok(), Er::ZST);
        choice_asserts!("choice3", v);
        let out = match chosen {
            Some(0) => a.out,
            Some(1) => b.out,
            _ => c.out,
        };
        if chosen.is_some() {
            vassert!(ok_with::<M, _>(&r, out), "C01/choice3.output-of-first-succeeding-alternative");
        }
        vcover!(chosen == Some(2), "choice3: third alternative chosen");
        vcover!(chosen == Some(1), "choice3: second alternative chosen");
        vcover!(chosen.is_none(), "choice3: all fail");
        if !Er::ZST {
            vassert!(Offers::of(&s0, &[&a, &b, &c]).matches(&s), "C06/choice3.pending-error-is-furthest-offer");
        }
    });
}
pub fn h_choice1<M: VMode, Er: VEr>() {
    run::<u8, Er, (), _>(|inp, s0| {
        let r = choice((anyp::<SymIn<u8>, X<Er>>(0),)).gov::<M>(inp);
        let s = snap(inp);
        let a = lg(inp, 0);
        let (v, chosen) = choice_spec(&s0, &s, &[(0, a)], r.is_ok(), Er::ZST);
        choice_asserts!("choice1", v);
        if chosen.is_some() {
            vcover!(true, "choice1: succeeds");
            vassert!(ok_with::<M, _>(&r, a.out), "C01/choice1.output-of-alternative");
        }
        if !Er::ZST {
            vassert!(Offers::of(&s0, &[&a]).matches(&s), "C06/choice1.pending-error-is-furthest-offer");
        }
    });
}

// ------------------------------------------------------------------------------ unary wrappers
/// A wrapper that transforms the output of its child is transparent for everything else:
/// v[0] child runs exactly once from the entry state; v[1] fails iff the child fails; v[2] position and
/// inspector as the child left them; v[3] emissions = the child's; v[4] failure: pending error present,
/// earlier emissions kept.
pub fn unary_spec(s0: &S0, s: &Snap, a: &CallLog, r_ok: bool, zst: bool) -> [bool; 5] {
    let mut v = [true; 5];
    v[0] = a.called && a.calls == 1 && a.entry_pos == s0.pos && a.entry_sec == s0.nsec && a.entry_believed == s0.pos;
    v[1] = r_ok == a.ok;
    if a.ok {
        v[2] = s.pos == a.exit_pos && s.believed == s.pos;
        v[3] = SecSpec::pre(s0).child(0, a).holds(s, zst);
    } else {
        v[4] = s.alt.is_some() && SecSpec::pre(s0).prefix_of(s, zst);
    }
    v
}
#[allow(unused_macros)]
macro_rules! unary_asserts {
    ($n:literal, $v:expr, $s:expr, $s0:expr, $a:expr, $zst:expr) => {
        vassert!($v[0], concat!("C01/", $n, ".child-runs-once-from-entry-state"));
        vassert!($v[1], concat!("C01/", $n, ".succeeds-iff-child-succeeds"));
        vassert!($v[2], concat!("C01/", $n, ".consumes-what-child-consumed"));
        vassert!($v[3], concat!("C05/", $n, ".child-emissions-kept-exactly"));
        vassert!($v[4], concat!("C20/", $n, ".failure-leaves-pending-error-and-earlier-emissions"));
        if !$zst {
            vassert!(Offers::of(&$s0, &[&$a]).matches(&$s), concat!("C06/", $n, ".pending-error-is-that-of-the-child"));
        }
        vcover!($a.ok, concat!($n, ": child succeeds"));
        vcover!(!$a.ok, concat!($n, ": child fails"));
    };
}

pub fn h_map<M: VMode, Er: VEr>() {
    run::<u8, Er, (), _>(|inp, s0| {
        let k = ch::any_u16();
        let r = anyp::<SymIn<u8>, X<Er>>(0).map(move |o: u16| o ^ k).gov::<M>(inp);
        let s = snap(inp);
        let a = lg(inp, 0);
        let v = unary_spec(&s0, &s, &a, r.is_ok(), Er::ZST);
        unary_asserts!("map", v, s, s0, a, Er::ZST);
        if a.ok {
            vassert!(ok_with::<M, _>(&r, a.out ^ k), "C01/map.output-is-mapper-of-child-output");
        }
    });
}
pub fn h_to<M: VMode, Er: VEr>() {
    run::<u8, Er, (), _>(|inp, s0| {
        let k = ch::any_u16();
        let r = anyp::<SymIn<u8>, X<Er>>(0).to(k).gov::<M>(inp);
        let s = snap(inp);
        let a = lg(inp, 0);
        let v = unary_spec(&s0, &s, &a, r.is_ok(), Er::ZST);
        unary_asserts!("to", v, s, s0, a, Er::ZST);
        if a.ok {
            vassert!(ok_with::<M, _>(&r, k), "C01/to.output-is-the-constant");
        }
    });
}
pub fn h_ignored<M: VMode, Er: VEr>() {
    run::<u8, Er, (), _>(|inp, s0| {
        let r = anyp::<SymIn<u8>, X<Er>>(0).ignored().gov::<M>(inp);
        let s = snap(inp);
        let a = lg(inp, 0);
        let v = unary_spec(&s0, &s, &a, r.is_ok(), Er::ZST);
        unary_asserts!("ignored", v, s, s0, a, Er::ZST);
    });
}
pub fn h_to_span<M: VMode, Er: VEr>() {
    run::<u8, Er, (), _>(|inp, s0| {
        let r = anyp::<SymIn<u8>, X<Er>>(0).to_span().gov::<M>(inp);
        let s = snap(inp);
        let a = lg(inp, 0);
        let v = unary_spec(&s0, &s, &a, r.is_ok(), Er::ZST);
        unary_asserts!("to_span", v, s, s0, a, Er::ZST);
        if a.ok {
            let want: SimpleSpan<usize> = (s0.pos..a.exit_pos).into();
            vassert!(ok_with::<M, _>(&r, want), "C07/to_span.span-covers-exactly-what-child-consumed");
        }
    });
}
pub fn h_to_slice<M: VMode, Er: VEr>() {
    run::<u8, Er, (), _>(|inp, s0| {
        let r = anyp::<SymIn<u8>, X<Er>>(0).to_slice().gov::<M>(inp);
        let s = snap(inp);
        let a = lg(inp, 0);
        let v = unary_spec(&s0, &s, &a, r.is_ok(), Er::ZST);
        unary_asserts!("to_slice", v, s, s0, a, Er::ZST);
        if a.ok {
            let want = SymSlice { start: s0.pos, end: a.exit_pos };
            vassert!(ok_with::<M, _>(&r, want), "C07/to_slice.slice-covers-exactly-what-child-consumed");
        }
    });
}
pub fn h_map_with<M: VMode, Er: VEr>() {
    run::<u8, Er, (), _>(|inp, s0| {
        let r = anyp::<SymIn<u8>, X<Er>>(0)
            .map_with(|o: u16, e| {
                let sp = e.span();
                let sl = e.slice();
                let st = e.state();
                st.reg[0] = sp.start;
                st.reg[1] = sp.end;
                st.reg[2] = st.believed;
                st.reg[3] = sl.start;
                st.reg[4] = sl.end;
                st.flag[0] = true;
                o.wrapping_add(1)
            })
            .gov::<M>(inp);
        let s = snap(inp);
        let a = lg(inp, 0);
        let v = unary_spec(&s0, &s, &a, r.is_ok(), Er::ZST);
        unary_asserts!("map_with", v, s, s0, a, Er::ZST);
        let st = inp.state();
        if a.ok {
            vassert!(ok_with::<M, _>(&r, a.out.wrapping_add(1)), "C01/map_with.output-is-mapper-of-child-output");
        }
        if st.flag[0] {
            vcover!(true, "map_with: mapper ran");
            vassert!(a.ok, "C01/map_with.mapper-runs-only-after-child-success");
            vassert!(st.reg[0] == s0.pos && st.reg[1] == a.exit_pos, "C07/map_with.span-covers-exactly-what-child-consumed");
            vassert!(st.reg[3] == s0.pos && st.reg[4] == a.exit_pos, "C07/map_with.slice-covers-exactly-what-child-consumed");
            vassert!(st.reg[2] == a.exit_pos, "C18/map_with.state-seen-by-mapper-reflects-tokens-before-position");
        }
        if M::EMIT && a.ok {
            vassert!(st.flag[0], "C01/map_with.mapper-runs-when-output-is-built");
        }
    });
}
pub fn h_validate<M: VMode, Er: VEr, const N: usize>() {
    run::<u8, Er, (), _>(|inp, s0| {
        let n = ch::below(N);
        let r = anyp::<SymIn<u8>, X<Er>>(0)
            .validate(move |o: u16, e, em| {
                let sp = e.span();
                let st = e.state();
                st.reg[0] = sp.start;
                st.reg[1] = sp.end;
                st.reg[2] = st.believed;
                st.flag[0] = true;
                if n >= 1 {
                    em.emit(Er::mk(300, sp.start, sp.end));
                }
                if n >= 2 {
                    em.emit(Er::mk(301, sp.start, sp.end));
                }
                o.wrapping_add(1)
            })
            .gov::<M>(inp);
        let s = snap(inp);
        let a = lg(inp, 0);
        let st = inp.state();
        vassert!(a.called && a.calls == 1 && a.entry_pos == s0.pos && a.entry_sec == s0.nsec, "C01/validate.child-runs-once-from-entry-state");
        vassert!(r.is_ok() == a.ok, "C01/validate.succeeds-iff-child-succeeds");
        vassert!(st.flag[0] == a.ok, "C04/validate.validator-runs-iff-child-succeeds-in-every-mode");
        if a.ok {
            vcover!(n == N, "validate: emits errors");
            vassert!(ok_with::<M, _>(&r, a.out.wrapping_add(1)), "C01/validate.output-is-validator-result");
            vassert!(s.pos == a.exit_pos && s.believed == s.pos, "C01/validate.consumes-what-child-consumed");
            vassert!(SecSpec::pre(&s0).child(0, &a).ids(300, n).holds(&s, Er::ZST), "C05/validate.child-emissions-then-validator-emissions-in-order");
            vassert!(st.reg[0] == s0.pos && st.reg[1] == a.exit_pos, "C07/validate.span-covers-exactly-what-child-consumed");
            vassert!(st.reg[2] == a.exit_pos, "C18/validate.state-seen-by-validator-reflects-tokens-before-position");
        } else {
            vcover!(true, "validate: child fails");
            vassert!(s.alt.is_some() && SecSpec::pre(&s0).prefix_of(&s, Er::ZST), "C20/validate.failure-leaves-pending-error-and-earlier-emissions");
        }
        if !Er::ZST {
            vassert!(Offers::of(&s0, &[&a]).matches(&s), "C06/validate.pending-error-is-that-of-the-child");
        }
    });
}

pub fn h_filter<M: VMode>() {
    run::<u8, VErr, (), _>(|inp, s0| {
        let thr = ch::any_u16();
        let r = anyp::<SymIn<u8>, X<VErr>>(0).filter(move |o: &u16| *o < thr).gov::<M>(inp);
        let s = snap(inp);
        let alt = alt_full(inp);
        let a = lg(inp, 0);
        vassert!(a.called && a.calls == 1 && a.entry_pos == s0.pos && a.entry_sec == s0.nsec, "C01/filter.child-runs-once-from-entry-state");
        vassert!(r.is_ok() == (a.ok && a.out < thr), "C01/filter.succeeds-iff-child-succeeds-and-predicate-accepts");
        let child_alt = Offers::of(&s0, &[&a]);
        if r.is_ok() {
            vcover!(true, "filter: accepted");
            vassert!(ok_with::<M, _>(&r, a.out), "C01/filter.output-is-child-output");
            vassert!(s.pos == a.exit_pos && s.believed == s.pos, "C01/filter.consumes-what-child-consumed");
            vassert!(SecSpec::pre(&s0).child(0, &a).holds(&s, false), "C05/filter.child-emissions-kept-exactly");
            vassert!(child_alt.matches(&s), "C06/filter.pending-error-is-that-of-the-child");
        } else {
            vassert!(s.alt.is_some() && SecSpec::pre(&s0).prefix_of(&s, false), "C20/filter.failure-leaves-pending-error-and-earlier-emissions");
            if a.ok {
                vcover!(true, "filter: rejected by predicate");
                // the rejection is offered by priority, at the rejected match (its start or its end)
                let at_end = child_alt.at(a.exit_pos, 0);
                let at_start = child_alt.at(s0.pos, 0);
                vassert!(at_end.matches(&s) || at_start.matches(&s), "C06/filter.rejection-offered-by-priority-at-the-rejected-match");
                // when the rejection itself is the pending error its span is the rejected match
                if let Some((_, e)) = alt {
                    if e.id == 0 && e.merges == 0 {
                        vcover!(true, "filter: rejection is the pending error");
                        vassert!(e.start == s0.pos && e.end == a.exit_pos, "C06/filter.error-span-is-the-rejected-match");
                        // "found is the token at the start of the span and is None only at the end of input"
                        let here = if s0.pos < s0.len { Some(inp.cache.tok_at(s0.pos) as u32) } else { None };
                        vassert_finding!(e.found == here, "C06/filter.found-is-the-token-at-the-start-of-the-span");
                    }
                }
            } else {
                vcover!(true, "filter: child fails");
                vassert!(child_alt.matches(&s), "C06/filter.pending-error-is-that-of-the-child");
            }
        }
    });
}

pub fn h_try_map<M: VMode, Er: VEr>() {
    run::<u8, Er, (), _>(|inp, s0| {
        let thr = ch::any_u16();
        let r = anyp::<SymIn<u8>, X<Er>>(0)
            .try_map(move |o: u16, sp: SimpleSpan<usize>| {
                if o < thr {
                    Ok((o, sp.start, sp.end))
                } else {
                    Err(Er::mk(77, sp.start, sp.end))
                }
            })
            .gov::<M>(inp);
        let s = snap(inp);
        let a = lg(inp, 0);
        vassert!(a.called && a.calls == 1 && a.entry_pos == s0.pos && a.entry_sec == s0.nsec, "C01/try_map.child-runs-once-from-entry-state");
        vassert!(r.is_ok() == (a.ok && a.out < thr), "C01/try_map.succeeds-iff-child-succeeds-and-mapper-accepts");
        let child_alt = Offers::of(&s0, &[&a]);
        if r.is_ok() {
            vcover!(true, "try_map: accepted");
            vassert!(ok_with::<M, _>(&r, (a.out, s0.pos, a.exit_pos)), "C07/try_map.output-and-span-cover-exactly-what-child-consumed");
            vassert!(s.pos == a.exit_pos && s.believed == s.pos, "C01/try_map.consumes-what-child-consumed");
            vassert!(SecSpec::pre(&s0).child(0, &a).holds(&s, Er::ZST), "C05/try_map.child-emissions-kept-exactly");
            if !Er::ZST {
                vassert!(child_alt.matches(&s), "C06/try_map.pending-error-is-furthest-offer");
            }
        } else {
            vassert!(SecSpec::pre(&s0).prefix_of(&s, Er::ZST), "C05/try_map.failure-keeps-earlier-emissions");
            vassert!(s.alt.is_some(), "C20/try_map.failure-leaves-pending-error");
            if !Er::ZST {
                if a.ok {
                    vcover!(true, "try_map: rejected by mapper");
                    // the user's error is offered at the start of the rejected match, by priority against the
                    // error pending at entry; it may or may not also compete with what the child left behind
                    let over_entry = Offers::entry(&s0).at(s0.pos, 77);
                    let over_child = child_alt.at(s0.pos, 77);
                    vassert!(over_entry.matches(&s) || over_child.matches(&s), "C06/try_map.user-error-offered-by-priority-earlier-furthest-kept");
                } else {
                    vcover!(true, "try_map: child fails");
                    vassert!(child_alt.matches(&s), "C06/try_map.pending-error-is-furthest-offer");
                }
            }
        }
    });
}

pub fn h_try_map_with<M: VMode, Er: VEr>() {
    run::<u8, Er, (), _>(|inp, s0| {
        let thr = ch::any_u16();
        let r = anyp::<SymIn<u8>, X<Er>>(0)
            .try_map_with(move |o: u16, e| {
                let sp = e.span();
                let st = e.state();
                st.reg[0] = sp.start;
                st.reg[1] = sp.end;
                st.reg[2] = st.believed;
                st.flag[0] = true;
                if o < thr {
                    Ok(o)
                } else {
                    Err(Er::mk(77, sp.start, sp.end))
                }
            })
            .gov::<M>(inp);
        let s = snap(inp);
        let a = lg(inp, 0);
        let st = inp.state();
        vassert!(a.called && a.calls == 1 && a.entry_pos == s0.pos && a.entry_sec == s0.nsec, "C01/try_map_with.child-runs-once-from-entry-state");
        vassert!(r.is_ok() == (a.ok && a.out < thr), "C01/try_map_with.succeeds-iff-child-succeeds-and-mapper-accepts");
        vassert!(st.flag[0] == a.ok, "C04/try_map_with.mapper-runs-iff-child-succeeds-in-every-mode");
        let child_alt = Offers::of(&s0, &[&a]);
        if a.ok {
            vassert!(st.reg[0] == s0.pos && st.reg[1] == a.exit_pos, "C07/try_map_with.span-covers-exactly-what-child-consumed");
            vassert!(st.reg[2] == a.exit_pos, "C18/try_map_with.state-seen-by-mapper-reflects-tokens-before-position");
        }
        if r.is_ok() {
            vcover!(true, "try_map_with: accepted");
            vassert!(ok_with::<M, _>(&r, a.out), "C01/try_map_with.output-is-mapper-result");
            vassert!(s.pos == a.exit_pos && s.believed == s.pos, "C01/try_map_with.consumes-what-child-consumed");
            vassert!(SecSpec::pre(&s0).child(0, &a).holds(&s, Er::ZST), "C05/try_map_with.child-emissions-kept-exactly");
            if !Er::ZST {
                vassert!(child_alt.matches(&s), "C06/try_map_with.pending-error-is-furthest-offer");
            }
        } else {
            vassert!(SecSpec::pre(&s0).prefix_of(&s, Er::ZST), "C05/try_map_with.failure-keeps-earlier-emissions");
            if !Er::ZST {
                vassert!(s.alt.is_some(), "C20/try_map_with.failure-leaves-pending-error");
                if a.ok {
                    vcover!(true, "try_map_with: rejected by mapper");
                    let at_end = child_alt.at(a.exit_pos, 77);
                    let at_start = child_alt.at(s0.pos, 77);
                    vassert!(at_end.matches(&s) || at_start.matches(&s), "C06/try_map_with.user-error-offered-by-priority-at-the-rejected-match");
                } else {
                    vcover!(true, "try_map_with: child fails");
                    vassert!(child_alt.matches(&s), "C06/try_map_with.pending-error-is-furthest-offer");
                }
            }
        }
    });
}

/// Ordered choice over a slice / array / Vec of alternatives (a loop): bounded to 3 alternatives.
pub fn h_choice_arr<M: VMode, Er: VEr, const KIND: usize>() {
    run::<u8, Er, (), _>(|inp, s0| {
        let anyp = |k| anyp::<SymIn<u8>, X<Er>>(k);
        let alts = [anyp(0), anyp(1), anyp(2)];
        let r = match KIND {
            0 => choice(alts).gov::<M>(inp),
            1 => choice(&alts[..]).gov::<M>(inp),
            _ => choice(alts.to_vec()).gov::<M>(inp),
        };
        let s = snap(inp);
        let (a, b, c) = (lg(inp, 0), lg(inp, 1), lg(inp, 2));
        let (v, chosen) = choice_spec(&s0, &s, &[(0, a), (1, b), (2, c)], r.is_ok(), Er::ZST);
        choice_asserts!("choice_dyn", v);
        let out = match chosen {
            Some(0) => a.out,
            Some(1) => b.out,
            _ => c.out,
        };
        if chosen.is_some() {
            vassert!(ok_with::<M, _>(&r, out), "C01/choice_dyn.output-of-first-succeeding-alternative");
        }
        vcover!(chosen == Some(2), "choice_dyn: third alternative chosen");
        vcover!(chosen.is_none(), "choice_dyn: all fail");
        if !Er::ZST {
            vassert!(Offers::of(&s0, &[&a, &b, &c]).matches(&s), "C06/choice_dyn.pending-error-is-furthest-offer");
        }
    });
}
/// The empty dynamic choice fails without consuming and leaves an error.
pub fn h_choice_empty<M: VMode>() {
    run::<u8, VS, (), _>(|inp, s0| {
        let alts: [AnyP<SymIn<u8>, X<VS>>; 0] = [];
        let r = choice(&alts[..]).gov::<M>(inp);
        let s = snap(inp);
        vcover!(true, "choice_dyn: empty");
        vassert!(r.is_err() && s.pos == s0.pos && s.nsec == s0.nsec, "C01/choice_dyn.empty-choice-fails-consuming-nothing");
        vassert!(s.alt.is_some(), "C20/choice_dyn.empty-choice-leaves-pending-error");
    });
}

harnesses! {
    #[kani::unwind(5)]
    choice_array_emit_b3 = h_choice_arr::<Emit, VS, 0>;
    #[kani::unwind(5)]
    choice_array_check_b3 = h_choice_arr::<Check, VS, 0>;
    #[kani::unwind(5)]
    choice_slice_emit_b3 = h_choice_arr::<Emit, VS, 1>;
    #[kani::unwind(5)]
    choice_vec_emit_b3_t = h_choice_arr::<Emit, VS, 2>;
    choice_empty_emit = h_choice_empty::<Emit>;
    group2_emit = h_group2::<Emit, VErr>;
    group2_check = h_group2::<Check, VErr>;
    group3_emit = h_group3::<Emit, VErr>;
    group3_check = h_group3::<Check, VErr>;
    delimited_by_emit = h_delimited_by::<Emit, VErr>;
    delimited_by_check = h_delimited_by::<Check, VErr>;
    padded_by_emit = h_padded_by::<Emit, VErr>;
    padded_by_check = h_padded_by::<Check, VErr>;
    choice3_emit = h_choice3::<Emit, VErr>;
    choice3_check = h_choice3::<Check, VErr>;
    choice1_emit = h_choice1::<Emit, VErr>;
    map_emit = h_map::<Emit, VErr>;
    map_check = h_map::<Check, VErr>;
    to_emit = h_to::<Emit, VErr>;
    to_check = h_to::<Check, VErr>;
    ignored_emit = h_ignored::<Emit, VErr>;
    ignored_check = h_ignored::<Check, VErr>;
    to_span_emit = h_to_span::<Emit, VErr>;
    to_span_check = h_to_span::<Check, VErr>;
    to_slice_emit = h_to_slice::<Emit, VErr>;
    to_slice_check = h_to_slice::<Check, VErr>;
    map_with_emit = h_map_with::<Emit, VErr>;
    map_with_check = h_map_with::<Check, VErr>;
    #[kani::unwind(9)]
    validate_emit = h_validate::<Emit, VS, 2>;
    #[kani::unwind(9)]
    validate_check = h_validate::<Check, VS, 2>;
    filter_emit = h_filter::<Emit>;
    filter_check = h_filter::<Check>;
    try_map_emit = h_try_map::<Emit, VErr>;
    try_map_check = h_try_map::<Check, VErr>;
    try_map_emit_zst = h_try_map::<Emit, VZ>;
    try_map_with_emit = h_try_map_with::<Emit, VErr>;
    try_map_with_check = h_try_map_with::<Check, VErr>;
}
