// Contracts of error recovery: `recover_with` + `via_parser` (complete) and the skipping strategies
// (loops: bounded to two rounds, names end in _b2).

use super::fw::*;
use super::h_comb::VEr;
use crate::prelude::*;
use crate::private::{Check, Emit, Mode};
use crate::recovery::{skip_then_retry_until, skip_until, via_parser};
use crate::Parser;

/// Both the parser and the strategy failed: the combinator fails with the error that was pending when
/// the parser failed, having consumed and emitted nothing.
macro_rules! gave_up {
    ($n:literal, $r:expr, $s:expr, $s0:expr, $a:expr, $zst:expr) => {
        vassert!($r.is_err(), concat!("C08/", $n, ".fails-when-parser-and-strategy-fail"));
        vassert!($s.pos == $s0.pos && $s.believed == $s.pos, concat!("C08/", $n, ".failure-consumes-nothing"));
        vassert!(SecSpec::pre(&$s0).holds(&$s, $zst), concat!("C05/", $n, ".failed-recovery-leaves-no-emissions"));
        vassert!($s.alt.is_some(), concat!("C20/", $n, ".failure-leaves-pending-error"));
        if !$zst {
            vassert!(Offers::of(&$s0, &[&$a]).matches(&$s), concat!("C08/", $n, ".fails-with-the-error-of-the-parser-failure"));
        }
    };
}

pub fn h_recover_via_parser<M: VMode, Er: VEr>() {
    run::<u8, Er, (), _>(|inp, s0| {
        let anyp = |k| anyp::<SymIn<u8>, X<Er>>(k);
        let r = anyp(0).recover_with(via_parser(anyp(1))).gov::<M>(inp);
        let s = snap(inp);
        let (a, f) = (lg(inp, 0), lg(inp, 1));
        vassert!(a.called && a.calls == 1 && a.entry_pos == s0.pos && a.entry_sec == s0.nsec, "C08/recover_with.parser-tried-first-from-entry");
        if a.ok {
            vcover!(true, "recover_with: parser succeeds");
            vassert!(!f.called, "C08/recover_with.strategy-not-consulted-when-parser-succeeds");
            vassert!(ok_with::<M, _>(&r, a.out) && s.pos == a.exit_pos && s.believed == s.pos, "C08/recover_with.transparent-when-parser-succeeds");
            vassert!(SecSpec::pre(&s0).child(0, &a).holds(&s, Er::ZST), "C08/recover_with.no-extra-error-when-parser-succeeds");
            if !Er::ZST {
                vassert!(Offers::of(&s0, &[&a]).matches(&s), "C06/recover_with.pending-error-as-the-parser-left-it");
            }
        } else {
            vassert!(f.called && f.calls == 1 && f.entry_pos == s0.pos && f.entry_sec == s0.nsec && f.entry_believed == s0.pos, "C08/recover_with.strategy-runs-from-entry-state-after-rewinding-the-parser");
            if f.ok {
                vcover!(true, "recover_with: recovered");
                vassert!(ok_with::<M, _>(&r, f.out), "C08/recover_with.output-is-the-strategy-output");
                vassert!(s.pos == f.exit_pos && s.believed == s.pos, "C08/recover_with.position-where-the-strategy-stopped");
                // exactly one extra error: the one that was pending when the parser failed
                let pend = offer_spec(s0.alt, a.fail_pos, a.fail_id).map(|x| x.1).unwrap_or(0);
                vassert!(SecSpec::pre(&s0).child(1, &f).ids(pend, 1).holds(&s, true), "C08/recover_with.exactly-one-extra-error-reported");
                #[cfg(not(kani))]
                {
                    let merged = s0.alt.map(|x| x.0 == a.fail_pos).unwrap_or(false);
                    if !Er::ZST && !merged {
                        vassert!(SecSpec::pre(&s0).child(1, &f).ids(pend, 1).holds(&s, false), "C08/recover_with.extra-error-is-the-error-of-the-parser-failure");
                    }
                }
            } else {
                vcover!(true, "recover_with: strategy fails too");
                gave_up!("recover_with", r, s, s0, a, Er::ZST);
            }
        }
    });
}

/// skip_until: until slots 0,1; skip slots 2,3 (second skip must fail); failing parser in slot 4.
pub fn h_skip_until<M: VMode, Er: VEr>() {
    run::<u8, Er, (), _>(|inp, s0| {
        let until = anyp_multi::<SymIn<u8>, X<Er>>(0, 2);
        let mut skip = anyp_multi::<SymIn<u8>, X<Er>>(2, 2);
        skip.bounded = true;
        let mut p = anyp::<SymIn<u8>, X<Er>>(4);
        p.bounded = true; // single reserved call that must fail: recovery is what is under test
        let strat = skip_until(skip.ignored(), until.ignored(), || 9u16);
        let r = p.recover_with(strat).gov::<M>(inp);
        let s = snap(inp);
        let a = lg(inp, 4);
        let (u0, u1, k0, k1) = (lg(inp, 0), lg(inp, 1), lg(inp, 2), lg(inp, 3));
        let pre = SecSpec::pre(&s0);
        let at_entry = |l: &CallLog| l.called && l.calls == 1 && l.entry_pos == s0.pos && l.entry_sec == s0.nsec && l.entry_believed == s0.pos;
        vassert!(at_entry(&u0), "C08/skip_until.until-tried-first-at-the-failure-position");
        let pend = offer_spec(s0.alt, a.fail_pos, a.fail_id).map(|x| x.1).unwrap_or(0);
        if u0.ok {
            vcover!(true, "skip_until: until matches at once");
            vassert!(!k0.called && !u1.called, "C08/skip_until.fewest-skips-zero-when-until-matches-at-once");
            vassert!(ok_with::<M, _>(&r, 9u16) && s.pos == u0.exit_pos && s.believed == s.pos, "C08/skip_until.recovers-with-fallback-value-after-until");
            vassert!(pre.child(0, &u0).ids(pend, 1).holds(&s, true), "C08/skip_until.exactly-one-extra-error-reported");
        } else {
            vassert!(at_entry(&k0), "C08/skip_until.skip-step-runs-from-where-until-was-tried");
            if !k0.ok {
                vcover!(true, "skip_until: skipping fails");
                vassert!(!u1.called, "C08/skip_until.gives-up-when-skipping-fails");
                gave_up!("skip_until", r, s, s0, a, Er::ZST);
            } else {
                let here = |l: &CallLog| l.called && l.calls == 1 && l.entry_pos == k0.exit_pos && l.entry_sec == s0.nsec + k0.emitted && l.entry_believed == k0.exit_pos;
                vassert!(here(&u1), "C08/skip_until.until-retried-after-each-skip-step");
                if u1.ok {
                    vcover!(true, "skip_until: until matches after one skip");
                    vassert!(!k1.called, "C08/skip_until.stops-skipping-as-soon-as-until-matches");
                    vassert!(ok_with::<M, _>(&r, 9u16) && s.pos == u1.exit_pos && s.believed == s.pos, "C08/skip_until.recovers-with-fallback-value-after-until");
                    vassert!(pre.child(2, &k0).child(0, &u1).ids(pend, 1).holds(&s, true), "C08/skip_until.exactly-one-extra-error-reported");
                } else {
                    vassert!(here(&k1) && !k1.ok, "FW/driver-bound-sufficient");
                    gave_up!("skip_until", r, s, s0, a, Er::ZST);
                }
            }
        }
    });
}

/// skip_then_retry_until: until slots 0,1; skip slots 2,3 (second must fail); parser slots 4,5.
pub fn h_skip_retry<M: VMode, Er: VEr>() {
    run::<u8, Er, (), _>(|inp, s0| {
        let until = anyp_multi::<SymIn<u8>, X<Er>>(0, 2);
        let mut skip = anyp_multi::<SymIn<u8>, X<Er>>(2, 2);
        skip.bounded = true;
        let p = anyp_multi::<SymIn<u8>, X<Er>>(4, 2);
        let strat = skip_then_retry_until(skip.ignored(), until.ignored());
        let r = p.recover_with(strat).gov::<M>(inp);
        let s = snap(inp);
        let (u0, u1, k0, k1, a, b) = (lg(inp, 0), lg(inp, 1), lg(inp, 2), lg(inp, 3), lg(inp, 4), lg(inp, 5));
        let pre = SecSpec::pre(&s0);
        let at_entry = |l: &CallLog| l.called && l.calls == 1 && l.entry_pos == s0.pos && l.entry_sec == s0.nsec && l.entry_believed == s0.pos;
        vassert!(at_entry(&a), "C08/skip_then_retry_until.parser-tried-first-from-entry");
        if a.ok {
            vassert!(!u0.called && !k0.called && ok_with::<M, _>(&r, a.out), "C08/skip_then_retry_until.transparent-when-parser-succeeds");
        } else {
            let pend = offer_spec(s0.alt, a.fail_pos, a.fail_id).map(|x| x.1).unwrap_or(0);
            vassert!(at_entry(&u0), "C08/skip_then_retry_until.until-checked-before-each-skip");
            if u0.ok {
                vcover!(true, "skip_then_retry_until: until matches at once");
                vassert!(!k0.called && !b.called, "C08/skip_then_retry_until.gives-up-when-until-matches");
                gave_up!("skip_then_retry_until", r, s, s0, a, Er::ZST);
            } else {
                vassert!(at_entry(&k0), "C08/skip_then_retry_until.skip-step-runs-from-the-failure-position");
                if !k0.ok {
                    vcover!(true, "skip_then_retry_until: skipping fails");
                    vassert!(!b.called, "C08/skip_then_retry_until.gives-up-when-skipping-fails");
                    gave_up!("skip_then_retry_until", r, s, s0, a, Er::ZST);
                } else {
                    let here = |l: &CallLog| l.called && l.calls == 1 && l.entry_pos == k0.exit_pos && l.entry_sec == s0.nsec + k0.emitted && l.entry_believed == k0.exit_pos;
                    vassert!(here(&b), "C08/skip_then_retry_until.parser-retried-after-each-skip-step");
                    if b.ok && b.emitted == 0 {
                        vcover!(true, "skip_then_retry_until: clean retry accepted");
                        vassert!(!u1.called && !k1.called, "C08/skip_then_retry_until.stops-at-first-clean-retry");
                        vassert!(ok_with::<M, _>(&r, b.out) && s.pos == b.exit_pos && s.believed == s.pos, "C08/skip_then_retry_until.output-of-the-clean-retry");
                        vassert!(pre.child(2, &k0).ids(pend, 1).holds(&s, true), "C08/skip_then_retry_until.exactly-one-extra-error-reported");
                    } else {
                        vcover!(b.ok, "skip_then_retry_until: retry with errors rejected");
                        vassert!(here(&u1), "C08/skip_then_retry_until.rejected-retry-is-rewound-before-continuing");
                        if !u1.ok {
                            vassert!(here(&k1) && !k1.ok, "FW/driver-bound-sufficient");
                        }
                        gave_up!("skip_then_retry_until", r, s, s0, a, Er::ZST);
                    }
                }
            }
        }
    });
}

harnesses! {
    recover_via_parser_emit = h_recover_via_parser::<Emit, VS>;
    recover_via_parser_check = h_recover_via_parser::<Check, VS>;
    recover_via_parser_emit_zst = h_recover_via_parser::<Emit, VZ>;
    #[kani::unwind(4)]
    skip_until_emit_b2 = h_skip_until::<Emit, VS>;
    #[kani::unwind(4)]
    skip_until_check_b2 = h_skip_until::<Check, VS>;
    #[kani::unwind(4)]
    skip_retry_emit_b2 = h_skip_retry::<Emit, VS>;
    #[kani::unwind(4)]
    skip_retry_check_b2 = h_skip_retry::<Check, VS>;
}
