// Native small-scope driver: runs the very same harness bodies against the real code, natively,
// enumerating the choice tree of `fw::ch`. Used (a) to find and replay a concrete counterexample for
// an obligation that the verifier reports as failed, and (b) as a sanity cross-check on the unchanged
// tree. It is never evidence of a proof.

use super::fw::ch::{Discard, Odo, ODO};
use std::cell::RefCell;
use std::panic;

pub struct VFail(pub &'static str);

thread_local! {
    static COVERS: RefCell<Vec<&'static str>> = RefCell::new(Vec::new());
    static FAILS: RefCell<Vec<&'static str>> = RefCell::new(Vec::new());
}

/// A failed obligation is recorded and the run goes on, as under the verifier, where every obligation is
/// checked on its own (entry.rs `vassert!`): one execution can show several failed obligations.
pub fn fail(m: &'static str) {
    FAILS.with(|c| {
        let mut c = c.borrow_mut();
        if !c.contains(&m) {
            c.push(m);
        }
    })
}
pub fn cover(m: &'static str) {
    COVERS.with(|c| {
        let mut c = c.borrow_mut();
        if !c.contains(&m) {
            c.push(m);
        }
    })
}

#[derive(Debug, Clone)]
pub enum Outcome {
    Pass,
    Discard,
    /// the obligations that failed in this execution, in the order they were evaluated (a panic that
    /// follows a failed obligation is a consequence of it and is not reported separately)
    Fail(Vec<String>),
    Panic(String),
}

pub fn run_once(f: fn(), script: &[u32]) -> (Outcome, Vec<u32>, Vec<u32>) {
    run_once_rng(f, script, None)
}
pub fn run_once_rng(f: fn(), script: &[u32], rng: Option<u64>) -> (Outcome, Vec<u32>, Vec<u32>) {
    ODO.with(|o| {
        *o.borrow_mut() = Odo {
            script: script.to_vec(),
            bounds: Vec::new(),
            pos: 0,
            rng,
        }
    });
    FAILS.with(|c| c.borrow_mut().clear());
    let r = panic::catch_unwind(f);
    let fails: Vec<String> = FAILS.with(|c| c.borrow().iter().map(|m| m.to_string()).collect());
    let (used, bounds) = ODO.with(|o| {
        let o = o.borrow();
        let n = o.pos.min(o.script.len());
        let mut used = o.script[..n].to_vec();
        for (i, u) in used.iter_mut().enumerate() {
            if i < o.bounds.len() {
                *u = (*u).min(o.bounds[i]);
            }
        }
        (used, o.bounds[..n.min(o.bounds.len())].to_vec())
    });
    let out = match r {
        Ok(()) => {
            if fails.is_empty() {
                Outcome::Pass
            } else {
                Outcome::Fail(fails)
            }
        }
        Err(e) => {
            if !fails.is_empty() {
                // obligations that failed before the run was cut short (by a precondition that does not hold
                // from here on, or by a panic that follows from the failure) did fail: an assumption made
                // later does not take back an obligation evaluated earlier (as under the verifier)
                Outcome::Fail(fails)
            } else if e.downcast_ref::<Discard>().is_some() {
                Outcome::Discard
            } else if false {
                Outcome::Fail(fails)
            } else if let Some(v) = e.downcast_ref::<VFail>() {
                Outcome::Fail(vec![v.0.to_string()])
            } else if let Some(s) = e.downcast_ref::<&'static str>() {
                Outcome::Panic(s.to_string())
            } else if let Some(s) = e.downcast_ref::<String>() {
                Outcome::Panic(s.clone())
            } else {
                Outcome::Panic("<non-string panic>".into())
            }
        }
    };
    (out, used, bounds)
}

/// Next script in depth-first order of the choice tree, or None when exhausted.
fn next_script(used: &[u32], bounds: &[u32]) -> Option<Vec<u32>> {
    let mut i = used.len().min(bounds.len());
    while i > 0 {
        i -= 1;
        if used[i] < bounds[i] {
            let mut s = used[..i].to_vec();
            s.push(used[i] + 1);
            return Some(s);
        }
    }
    None
}

pub struct Report {
    pub executions: u64,
    pub passes: u64,
    pub discards: u64,
    pub exhausted: bool,
    /// (message, script) of the first failure per distinct message
    pub failures: Vec<(String, Vec<u32>, bool)>,
    pub covers: Vec<&'static str>,
}

/// Random sampling of the choice tree (seeded); complements the depth-first enumeration, which keeps
/// the earliest choices (input length, entry position) small for a long time.
pub fn sample(f: fn(), runs: u64, seed: u64, stop_on: Option<&str>, rep: &mut Report) {
    let mut x = seed.wrapping_mul(0x9E3779B97F4A7C15) | 1;
    for _ in 0..runs {
        x ^= x << 13;
        x ^= x >> 7;
        x ^= x << 17;
        let (out, used, _b) = run_once_rng(f, &[], Some(x | 1));
        rep.executions += 1;
        let (ms, p) = match out {
            Outcome::Pass => {
                rep.passes += 1;
                continue;
            }
            Outcome::Discard => {
                rep.discards += 1;
                continue;
            }
            Outcome::Fail(ms) => (ms, false),
            Outcome::Panic(m) => (vec![format!("PANIC: {}", m)], true),
        };
        let mut hit = false;
        for m in ms {
            hit |= stop_on.map(|s| m.contains(s) || (p && s == "PANIC")).unwrap_or(false);
            if !rep.failures.iter().any(|(y, _, _)| *y == m) {
                rep.failures.push((m, used.clone(), p));
            }
        }
        if hit {
            return;
        }
    }
}

pub fn enumerate(f: fn(), max_runs: u64, stop_on: Option<&str>) -> Report {
    COVERS.with(|c| c.borrow_mut().clear());
    let mut rep = Report {
        executions: 0,
        passes: 0,
        discards: 0,
        exhausted: false,
        failures: Vec::new(),
        covers: Vec::new(),
    };
    let mut script: Vec<u32> = Vec::new();
    loop {
        let (out, used, bounds) = run_once(f, &script);
        rep.executions += 1;
        match out {
            Outcome::Pass => rep.passes += 1,
            Outcome::Discard => rep.discards += 1,
            Outcome::Fail(ms) => {
                let mut hit = false;
                for m in ms {
                    hit |= stop_on.map(|s| m.contains(s)).unwrap_or(false);
                    if !rep.failures.iter().any(|(x, _, _)| *x == m) {
                        rep.failures.push((m, used.clone(), false));
                    }
                }
                if hit {
                    break;
                }
            }
            Outcome::Panic(m) => {
                let m = format!("PANIC: {}", m);
                let hit = stop_on.map(|s| m.contains(s) || s == "PANIC").unwrap_or(false);
                if !rep.failures.iter().any(|(x, _, _)| *x == m) {
                    rep.failures.push((m, used.clone(), true));
                }
                if hit {
                    break;
                }
            }
        }
        match next_script(&used, &bounds) {
            Some(s) => script = s,
            None => {
                rep.exhausted = true;
                break;
            }
        }
        if rep.executions >= max_runs {
            break;
        }
    }
    rep.covers = COVERS.with(|c| c.borrow().clone());
    rep
}

fn esc(s: &str) -> String {
    let mut o = String::new();
    for c in s.chars() {
        match c {
            '"' => o.push_str("\\\""),
            '\\' => o.push_str("\\\\"),
            '\n' => o.push_str("\\n"),
            c if (c as u32) < 0x20 => o.push(' '),
            c => o.push(c),
        }
    }
    o
}
fn script_str(s: &[u32]) -> String {
    s.iter().map(|x| x.to_string()).collect::<Vec<_>>().join(",")
}

pub fn registry() -> Vec<(&'static str, fn())> {
    let mut r = Vec::new();
    super::register_all(&mut r);
    r
}

/// Command line of the replay binary. One JSON object per line on stdout.
pub fn main_native() -> i32 {
    panic::set_hook(Box::new(|_| {}));
    let args: Vec<String> = std::env::args().collect();
    let reg = registry();
    let cmd = args.get(1).map(|s| s.as_str()).unwrap_or("list");
    let find = |n: &str| reg.iter().find(|(k, _)| *k == n).map(|(_, f)| *f);
    match cmd {
        "list" => {
            for (n, _) in &reg {
                println!("{}", n);
            }
            0
        }
        "sweep" | "find" => {
            let name = args.get(2).cloned().unwrap_or_default();
            let (stop, max_i) = if cmd == "find" {
                (args.get(3).cloned(), 4)
            } else {
                (None, 3)
            };
            let max: u64 = args.get(max_i).and_then(|s| s.parse().ok()).unwrap_or(200_000);
            let seed: u64 = args.get(max_i + 1).and_then(|s| s.parse().ok()).unwrap_or(0);
            let mut rc = 0;
            for (n, f) in &reg {
                if name != "all" && *n != name {
                    continue;
                }
                // half of the budget depth-first (exhaustive when the tree is small), half sampled
                let mut rep = enumerate(*f, max / 2, stop.as_deref());
                let found = stop.as_deref().map(|s| rep.failures.iter().any(|(m, _, p)| m.contains(s) || (*p && s == "PANIC"))).unwrap_or(false);
                if !rep.exhausted && !found {
                    sample(*f, max / 2, seed.wrapping_add(1), stop.as_deref(), &mut rep);
                    rep.covers = COVERS.with(|c| c.borrow().clone());
                }
                let fails: Vec<String> = rep
                    .failures
                    .iter()
                    .map(|(m, s, p)| {
                        format!(
                            "{{\"obligation\":\"{}\",\"script\":\"{}\",\"panic\":{}}}",
                            esc(m),
                            script_str(s),
                            p
                        )
                    })
                    .collect();
                let covers: Vec<String> = rep.covers.iter().map(|c| format!("\"{}\"", esc(c))).collect();
                println!(
                    "{{\"harness\":\"{}\",\"executions\":{},\"passes\":{},\"discards\":{},\"exhausted\":{},\"failures\":[{}],\"covers\":[{}]}}",
                    n,
                    rep.executions,
                    rep.passes,
                    rep.discards,
                    rep.exhausted,
                    fails.join(","),
                    covers.join(",")
                );
                if !rep.failures.is_empty() {
                    rc = 1;
                }
            }
            rc
        }
        "replay" => {
            let name = args.get(2).cloned().unwrap_or_default();
            let script: Vec<u32> = args
                .get(3)
                .map(|s| s.split(',').filter(|x| !x.is_empty()).filter_map(|x| x.parse().ok()).collect())
                .unwrap_or_default();
            match find(&name) {
                None => {
                    println!("{{\"error\":\"unknown harness {}\"}}", esc(&name));
                    2
                }
                Some(f) => {
                    let (out, used, bounds) = run_once(f, &script);
                    let (status, msg) = match &out {
                        Outcome::Pass => ("pass", String::new()),
                        Outcome::Discard => ("discard", String::new()),
                        Outcome::Fail(ms) => ("fail", ms.join(" | ")),
                        Outcome::Panic(m) => ("panic", m.clone()),
                    };
                    println!(
                        "{{\"harness\":\"{}\",\"status\":\"{}\",\"obligation\":\"{}\",\"choices\":\"{}\",\"bounds\":\"{}\"}}",
                        name,
                        status,
                        esc(&msg),
                        script_str(&used),
                        script_str(&bounds)
                    );
                    match out {
                        Outcome::Pass | Outcome::Discard => 0,
                        _ => 1,
                    }
                }
            }
        }
        _ => {
            println!("usage: list | sweep <harness|all> [max] | find <harness> <obligation-substr> [max] | replay <harness> <c0,c1,..>");
            2
        }
    }
}
