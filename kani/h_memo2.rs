// @config features=memoization
// C11, second part: the scope of the memo table. One table per parse of one input: it is shared with
// sub-parsers that run under another context or another user state on the SAME input (keys are positions
// of that input: the in-progress mark that cuts left recursion must stay visible), a nested parse of
// another input has its own. (That every top-level parse starts with an empty table - `memos: HashMap::default()` in
// `InputOwn::new*` - is not under contract: the harness of the entry points with the map contract compiled in
// did not finish within 25 minutes.) Plus memoized() nested
// directly in memoized() ("regardless of how the memoized parsers are nested").

use super::fw::*;
use crate::input::{Input, InputRef};
use crate::prelude::*;
use crate::private::{Check, Emit, Mode, PResult};
use crate::Parser;

type I8 = SymIn<u8>;
const OUTER_MARK: (usize, usize) = (usize::MAX, 11);
const INNER_MARK: (usize, usize) = (usize::MAX, 22);

/// A parser that looks at the memo table it is given (ghost: reg[1] = the caller's mark is visible,
/// reg[2] = number of bindings seen), leaves a mark of its own in it, and then behaves as a contract stub.
#[derive(Clone, Copy)]
pub struct TableProbe<C: 'static> {
    pub inner: AnyP<I8, X<VS, C>>,
}
impl<C: CtxId + 'static> Parser<'static, I8, u16, X<VS, C>> for TableProbe<C> {
    fn go<M: Mode>(&self, inp: &mut InputRef<'static, '_, I8, X<VS, C>>) -> PResult<M, u16> {
        inp.state.reg[1] = if inp.memos.get(&OUTER_MARK).is_some() { 1 } else { 2 };
        inp.state.reg[2] = inp.memos.len();
        inp.memos.insert(INNER_MARK, None);
        self.inner.go::<M>(inp)
    }
    fn go_emit(&self, inp: &mut InputRef<'static, '_, I8, X<VS, C>>) -> PResult<Emit, u16> {
        self.go::<Emit>(inp)
    }
    fn go_check(&self, inp: &mut InputRef<'static, '_, I8, X<VS, C>>) -> PResult<Check, u16> {
        self.go::<Check>(inp)
    }
}

/// `with_ctx`: the sub-parser works on the caller's table.
pub fn h_memo_table_with_ctx<M: VMode>() {
    run::<u8, VS, (), _>(|inp, _s0| {
        inp.memos.insert(OUTER_MARK, None);
        let k = ch::any_u16();
        let p = TableProbe::<u16> { inner: anyp::<I8, X<VS, u16>>(0) }.with_ctx(k);
        let _ = p.gov::<M>(inp);
        vassert!(lg(inp, 0).called, "C11/with_ctx.sub-parser-runs");
        vassert!(inp.state.reg[1] == 1, "C11/with_ctx.sub-parser-sees-the-callers-memo-table");
        vassert!(inp.memos.get(&INNER_MARK).is_some(), "C11/with_ctx.bindings-made-under-the-context-stay-in-the-callers-table");
        vassert!(inp.memos.get(&OUTER_MARK).is_some(), "C11/with_ctx.callers-bindings-kept");
    });
}

/// `nested_in`: the parse of the inner input has a table of its own (positions of another input).
pub fn h_memo_table_nested_in<M: VMode>() {
    run::<u8, VS, (), _>(|inp, _s0| {
        inp.memos.insert(OUTER_MARK, None);
        let len2 = ch::any_usize();
        inp.state.len2 = len2;
        let b = anyp::<I8, X<VS>>(0).map(move |_o: u16| SymIn::<u8>::new(len2));
        let mut a = TableProbe::<()> { inner: anyp::<I8, X<VS>>(1) };
        a.inner.inner = true;
        let _ = a.nested_in(b).gov::<M>(inp);
        if lg(inp, 1).called {
            vcover!(true, "memo table: nested parse ran");
            vassert!(inp.state.reg[1] == 2 && inp.state.reg[2] == 0, "C11/nested_in.inner-input-starts-with-an-empty-memo-table-of-its-own");
            vassert!(inp.memos.get(&INNER_MARK).is_none(), "C11/nested_in.inner-bindings-do-not-reach-the-outer-table");
        }
        vassert!(inp.memos.get(&OUTER_MARK).is_some(), "C11/nested_in.outer-bindings-kept");
    });
}

/// memoized() directly inside memoized(): still the parser.
pub fn h_memoized_nested<M: VMode>() {
    run::<u8, VS, (), _>(|inp, s0| {
        let p = anyp::<I8, X<VS>>(0).memoized().memoized();
        let r = p.gov::<M>(inp);
        let s = snap(inp);
        let a = lg(inp, 0);
        vassert_finding!(a.called && a.calls == 1 && a.entry_pos == s0.pos, "C11/memoized_nested.the-parser-is-run-once-from-the-caller-state");
        vassert!(r.is_ok() == a.ok, "C11/memoized_nested.same-acceptance-as-the-parser");
        if a.ok {
            vcover!(true, "memoized nested: succeeds");
            vassert!(ok_with::<M, _>(&r, a.out) && s.pos == a.exit_pos, "C11/memoized_nested.same-output-and-consumption-as-the-parser");
        } else {
            vcover!(true, "memoized nested: fails");
            vassert!(s.alt.is_some(), "C20/memoized_nested.failure-leaves-pending-error");
        }
        vassert!(Offers::of(&s0, &[&a]).matches(&s), "C11/memoized_nested.same-pending-error-as-the-parser");
    });
}

harnesses! {
    memo_table_with_ctx_emit = h_memo_table_with_ctx::<Emit>;
    memo_table_with_ctx_check = h_memo_table_with_ctx::<Check>;
    #[kani::unwind(4)]
    memo_table_nested_in_emit = h_memo_table_nested_in::<Emit>;
    memoized_nested_emit = h_memoized_nested::<Emit>;
    memoized_nested_check = h_memoized_nested::<Check>;
}
