// @config debug_assertions=off
// Larger-bound variants (thorough tier only) of the driver harnesses of h_iter.rs: three items instead of two.
// Same harness bodies, same obligations; bounded stand-ins like their `_b3` twins.

use super::fw::*;
use super::h_iter::{h_collect, h_foldl, h_foldr, h_repeated_go};
use crate::private::{Check, Emit};

harnesses! {
    #[kani::unwind(6)]
    collect_emit_b4_t = h_collect::<Emit, VS, 4>;
    #[kani::unwind(6)]
    foldl_emit_b4_t = h_foldl::<Emit, VS, 4>;
    #[kani::unwind(6)]
    foldr_emit_b4_t = h_foldr::<Emit, VS, 4>;
    #[kani::unwind(6)]
    repeated_go_fast_emit_b4_t = h_repeated_go::<Emit, VS, 4, true>;
    #[kani::unwind(6)]
    repeated_go_counted_check_b4_t = h_repeated_go::<Check, VS, 4, false>;
}
