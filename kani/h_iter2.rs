// @config debug_assertions=off
// More of the iteration machinery under contract: `foldr_with` (driver, bounded; per-item spans of C07),
// `Then` / `IgnoreWithCtx` / `ThenWithCtx` / `IntoIter` used as *iterable* parsers (loop-free steps:
// complete). Built with debug assertions off like h_iter (track_caller constructors).

use super::fw::*;
use super::h_comb::VEr;
use super::h_iter::drive_spec;
use crate::combinator::{IgnoreWithCtx, Then, ThenWithCtx};
use crate::prelude::*;
use crate::private::{Check, Emit, Mode};
use crate::EmptyPhantom;
use crate::{IterParser, Parser};

type XC = X<VS, u16>;

// ----------------------------------------------------------------------------------- foldr_with
/// `items.foldr_with(last, f)`: the items are parsed first, then `last`; `f` is applied from the right
/// and the span it sees for the k-th item runs from the start of *that item* to the end of the whole
/// fold (the sub-expression being built), with the inspector at the final position.
pub fn h_foldr_with<M: VMode, Er: VEr, const B: usize>() {
    run::<u8, Er, (), _>(|inp, s0| {
        let p = anyit::<SymIn<u8>, X<Er>>(0, B).foldr_with(anyp::<SymIn<u8>, X<Er>>(B), |a: u16, acc: u16, e| {
            let sp = e.span();
            let st = e.state();
            let j = st.reg[6];
            st.reg[6] = j.wrapping_add(1);
            // j-th callback (0 = rightmost item): remember where its span starts
            if j < 3 {
                st.reg[j] = sp.start;
            }
            if sp.end != st.believed {
                st.flag[1] = true;
            }
            acc.wrapping_mul(31).wrapping_add(a)
        });
        let r = p.gov::<M>(inp);
        let s = snap(inp);
        let (v, n, items, ended_ok, pos, spec) = drive_spec::<Er>(inp, &s0, s0.pos, s0.nsec, 0, B, 0, SecSpec::pre(&s0));
        let b = lg(inp, B);
        vassert!(v[2], "FW/driver-bound-sufficient");
        vassert!(v[0] && v[1], "C02/foldr_with.steps-run-in-sequence-until-the-end");
        if !ended_ok {
            vcover!(true, "foldr_with: iteration fails");
            vassert!(r.is_err() && !b.called, "C02/foldr_with.fails-when-iteration-fails");
        } else {
            vassert!(b.called && b.calls == 1 && b.entry_pos == pos, "C02/foldr_with.final-value-parsed-after-the-items");
            vassert!(r.is_ok() == b.ok, "C02/foldr_with.succeeds-iff-final-value-parses");
            if let Ok(o) = &r {
                vcover!(n == B - 1 && n >= 2, "foldr_with: maximal number of items");
                let mut acc = b.out;
                let mut k = 4;
                while k > 0 {
                    k -= 1;
                    if k < n {
                        acc = acc.wrapping_mul(31).wrapping_add(items[k]);
                    }
                }
                vassert!(M::peek(o).map(|x| x == acc).unwrap_or(true), "C02/foldr_with.folds-items-from-the-right");
                vassert!(s.pos == b.exit_pos && s.believed == s.pos, "C02/foldr_with.position-after-final-value");
                vassert!(spec.child(B, &b).holds(&s, Er::ZST), "C05/foldr_with.emissions-of-all-steps-in-order");
                if M::EMIT {
                    vassert!(inp.state.reg[6] == n, "C02/foldr_with.callback-runs-once-per-item");
                    vassert!(!inp.state.flag[1], "C07/foldr_with.callback-span-ends-at-the-end-of-the-fold");
                    // callback j handles item n-1-j, whose `next` call is logged in slot n-1-j
                    let mut ok = true;
                    unroll!(j in [0, 1, 2] {
                        if j < n {
                            let item_start = lg(inp, n - 1 - j).entry_pos;
                            if inp.state.reg[j] != item_start {
                                ok = false;
                            }
                        }
                    });
                    vassert!(ok, "C07/foldr_with.callback-span-starts-where-its-own-item-starts");
                }
            }
        }
        if r.is_err() {
            vassert!(s.alt.is_some(), "C20/foldr_with.failure-leaves-pending-error");
        }
    });
}

// ------------------------------------------------------------------ Then as an iterable parser
/// `a.then(b)` over two iterable parsers yields the items of `a`, then those of `b`, in input order.
/// Two consecutive `next` calls from a fresh iteration state (every case of the state machine).
pub fn h_then_iter<M: VMode>() {
    run::<u8, VS, (), _>(|inp, s0| {
        // a: calls logged in slots 0,1 (the second call yields no further item: harness bound);
        // b: slots 2,3
        let a = anyit::<SymIn<u8>, X<VS>>(0, 2);
        let b = anyit::<SymIn<u8>, X<VS>>(2, 2);
        let p: Then<_, _, u16, u16, X<VS>> = Then { parser_a: a, parser_b: b, phantom: EmptyPhantom::new() };
        let st = <_ as IterParser<'static, SymIn<u8>, u16, X<VS>>>::make_iter::<M>(&p, inp);
        vassert!(st.is_ok(), "C02/then_iter.starting-the-iteration-cannot-fail");
        let mut st = match st {
            Ok(s) => s,
            Err(()) => return,
        };
        let r1 = <_ as IterParser<'static, SymIn<u8>, u16, X<VS>>>::next::<M>(&p, inp, &mut st);
        let (a0, b0) = (lg(inp, 0), lg(inp, 2));
        vassert!(a0.called && a0.entry_pos == s0.pos && a0.entry_sec == s0.nsec, "C02/then_iter.first-iterable-is-stepped-first-from-entry");
        let first_is = |r: &Result<Option<M::Output<u16>>, ()>, l: &CallLog| match (r, l.kind) {
            (Ok(Some(o)), 0) => M::peek(o).map(|x| x == l.out).unwrap_or(true),
            (Ok(None), 1) => true,
            (Err(()), 2) => true,
            _ => false,
        };
        match a0.kind {
            0 => {
                vcover!(true, "then_iter: item of the first iterable");
                vassert!(first_is(&r1, &a0) && !b0.called, "C02/then_iter.items-of-the-first-iterable-come-first");
            }
            1 => {
                vcover!(b0.kind == 0, "then_iter: first iterable exhausted, item of the second");
                vassert!(b0.called && b0.entry_pos == a0.exit_pos && b0.entry_sec == s0.nsec + a0.emitted && b0.entry_believed == a0.exit_pos, "C02/then_iter.second-iterable-continues-where-the-first-ended");
                vassert!(first_is(&r1, &b0), "C02/then_iter.then-the-items-of-the-second-iterable");
            }
            _ => {
                vcover!(true, "then_iter: first iterable fails");
                vassert!(r1.is_err() && !b0.called, "C02/then_iter.failure-of-the-first-iterable-propagates");
                vassert!(inp.errors.alt.is_some(), "C20/then_iter.failure-leaves-pending-error");
            }
        }
        let s1 = snap(inp);
        vassert!(s1.believed == s1.pos || r1.is_err(), "C18/then_iter.inspector-at-position");
        if let Ok(Some(_)) = r1 {
            // second step: continues in whichever iterable is current
            let r2 = <_ as IterParser<'static, SymIn<u8>, u16, X<VS>>>::next::<M>(&p, inp, &mut st);
            let (a1, b0, b1) = (lg(inp, 1), lg(inp, 2), lg(inp, 3));
            if a0.kind == 0 {
                vassert!(a1.called && a1.entry_pos == s1.pos && !b1.called, "C02/then_iter.keeps-stepping-the-first-iterable-until-it-ends");
                if a1.kind == 1 {
                    vcover!(true, "then_iter: switch to the second iterable on the second step");
                    vassert!(b0.called && b0.entry_pos == a1.exit_pos && first_is(&r2, &b0), "C02/then_iter.switches-to-the-second-iterable-when-the-first-ends");
                } else {
                    vassert!(r2.is_err() && !b0.called, "C02/then_iter.failure-of-the-first-iterable-propagates-later-too");
                }
            } else {
                vcover!(true, "then_iter: second step inside the second iterable");
                vassert!(b1.called && b1.entry_pos == s1.pos && a1.calls == 0 && a0.calls == 1 && first_is(&r2, &b1), "C02/then_iter.never-returns-to-the-first-iterable");
            }
        }
    });
}

// ------------------------------------------------------------------------------------ IntoIter
/// `p.into_iter()`: as a parser it matches exactly as `p` (run without building the value is allowed,
/// C04); as an iterable parser it parses `p` once and then yields the elements of its output in order
/// without touching the input.
pub fn h_into_iter<M: VMode>() {
    run::<u8, VS, (), _>(|inp, s0| {
        let child = anyp::<SymIn<u8>, X<VS>>(0).map(|o: u16| [o, o.wrapping_add(1)]);
        let p = child.into_iter();
        if ch::any_bool() {
            let r = <_ as Parser<'static, SymIn<u8>, (), X<VS>>>::go::<M>(&p, inp);
            let s = snap(inp);
            let a = lg(inp, 0);
            let v = super::h_comb2::unary_spec(&s0, &s, &a, r.is_ok(), false);
            vcover!(a.ok, "into_iter as parser: child succeeds");
            vassert!(v[0] && v[1] && v[2] && v[3] && v[4], "C04/into_iter.as-a-parser-matches-exactly-as-its-child");
            vassert!(Offers::of(&s0, &[&a]).matches(&s), "C06/into_iter.pending-error-is-that-of-the-child");
            return;
        }
        let st = <_ as IterParser<'static, SymIn<u8>, u16, X<VS>>>::make_iter::<M>(&p, inp);
        let a = lg(inp, 0);
        let s = snap(inp);
        vassert!(a.called && a.calls == 1 && a.entry_pos == s0.pos, "C02/into_iter.child-parsed-once-when-the-iteration-starts");
        vassert!(st.is_ok() == a.ok, "C02/into_iter.iteration-starts-iff-the-child-succeeds");
        let mut st = match st {
            Ok(x) => x,
            Err(()) => {
                vassert!(s.alt.is_some(), "C20/into_iter.failure-leaves-pending-error");
                return;
            }
        };
        vassert!(s.pos == a.exit_pos && s.believed == s.pos && SecSpec::pre(&s0).child(0, &a).holds(&s, false), "C02/into_iter.consumes-what-the-child-consumed");
        let r1 = <_ as IterParser<'static, SymIn<u8>, u16, X<VS>>>::next::<M>(&p, inp, &mut st);
        let r2 = <_ as IterParser<'static, SymIn<u8>, u16, X<VS>>>::next::<M>(&p, inp, &mut st);
        let r3 = <_ as IterParser<'static, SymIn<u8>, u16, X<VS>>>::next::<M>(&p, inp, &mut st);
        let is = |r: &Result<Option<M::Output<u16>>, ()>, v: u16| match r {
            Ok(Some(o)) => M::peek(o).map(|x| x == v).unwrap_or(true),
            _ => false,
        };
        vcover!(true, "into_iter: elements yielded");
        vassert!(is(&r1, a.out) && is(&r2, a.out.wrapping_add(1)) && matches!(r3, Ok(None)), "C02/into_iter.yields-the-elements-of-the-output-in-order-then-ends");
        vassert!(snap(inp) == s && lg(inp, 0).calls == 1, "C02/into_iter.stepping-does-not-touch-the-input");
    });
}

// ------------------------------------------------------- context from the left, iterable right side
/// ignore_with_ctx / then_with_ctx with an *iterable* right-hand side: the left parser runs once when the
/// iteration starts; every step of the right side sees the left output of this attempt as its context.
pub fn h_ctx_iter<M: VMode, const THEN: bool>() {
    run::<u8, VS, (), _>(|inp, s0| {
        let a = anyp::<SymIn<u8>, X<VS>>(0);
        let b = anyit::<SymIn<u8>, XC>(1, 2);
        let calls0 = inp.state.reg[7];
        let (la, lb, st_ok, r_kind) = if THEN {
            let p = ThenWithCtx { parser: a, then: b, phantom: EmptyPhantom::new() };
            let st = <_ as IterParser<'static, SymIn<u8>, u16, X<VS>>>::make_iter::<M>(&p, inp);
            match st {
                Ok(mut st) => {
                    let r = <_ as IterParser<'static, SymIn<u8>, u16, X<VS>>>::next::<M>(&p, inp, &mut st);
                    (lg(inp, 0), lg(inp, 1), true, kind_of::<M>(&r, lg(inp, 1).out))
                }
                Err(()) => (lg(inp, 0), lg(inp, 1), false, 9),
            }
        } else {
            let p = IgnoreWithCtx { parser: a, then: b, phantom: EmptyPhantom::new() };
            let st = <_ as IterParser<'static, SymIn<u8>, u16, X<VS>>>::make_iter::<M>(&p, inp);
            match st {
                Ok(mut st) => {
                    let r = <_ as IterParser<'static, SymIn<u8>, u16, X<VS>>>::next::<M>(&p, inp, &mut st);
                    (lg(inp, 0), lg(inp, 1), true, kind_of::<M>(&r, lg(inp, 1).out))
                }
                Err(()) => (lg(inp, 0), lg(inp, 1), false, 9),
            }
        };
        let s = snap(inp);
        vassert!(la.called && la.calls == 1 && la.entry_pos == s0.pos && la.entry_sec == s0.nsec, "C15/ctx_iter.left-parser-runs-once-when-the-iteration-starts");
        vassert!(st_ok == la.ok, "C15/ctx_iter.iteration-starts-iff-the-left-parser-succeeds");
        if !la.ok {
            vcover!(true, "ctx iter: left fails");
            vassert!(!lb.called && s.alt.is_some(), "C20/ctx_iter.failure-leaves-pending-error");
        } else {
            vassert!(inp.state.reg[7] == calls0.wrapping_add(1), "C15/ctx_iter.right-iteration-started-once");
            vassert!(lb.called && lb.calls == 1 && lb.entry_pos == la.exit_pos && lb.entry_sec == s0.nsec + la.emitted && lb.entry_believed == la.exit_pos, "C15/ctx_iter.right-side-steps-from-where-the-left-parser-stopped");
            vcover!(lb.kind == 0, "ctx iter: right side yields an item");
            vassert!(lb.ctx_seen == la.out, "C15/ctx_iter.right-side-sees-the-left-output-of-this-attempt");
            vassert!(r_kind == lb.kind, "C15/ctx_iter.step-result-is-that-of-the-right-side");
            if lb.kind != 2 {
                vassert!(s.pos == lb.exit_pos && s.believed == s.pos, "C18/ctx_iter.inspector-at-position");
            }
        }
    });
}
/// 0 = item equal to `want` (in Emit mode), 1 = end, 2 = failure, 8 = wrong item
fn kind_of<M: VMode>(r: &Result<Option<M::Output<u16>>, ()>, want: u16) -> u8 {
    match r {
        Ok(Some(o)) => {
            if M::peek(o).map(|x| x == want).unwrap_or(true) {
                0
            } else {
                8
            }
        }
        Ok(None) => 1,
        Err(()) => 2,
    }
}

harnesses! {
    #[kani::unwind(5)]
    foldr_with_emit_b3 = h_foldr_with::<Emit, VS, 3>;
    #[kani::unwind(5)]
    foldr_with_check_b3 = h_foldr_with::<Check, VS, 3>;
    then_iter_emit = h_then_iter::<Emit>;
    then_iter_check = h_then_iter::<Check>;
    into_iter_emit = h_into_iter::<Emit>;
    into_iter_check = h_into_iter::<Check>;
    ignore_with_ctx_iter_emit = h_ctx_iter::<Emit, false>;
    ignore_with_ctx_iter_check = h_ctx_iter::<Check, false>;
    then_with_ctx_iter_emit = h_ctx_iter::<Emit, true>;
}
