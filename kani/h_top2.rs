// @config debug_assertions=off
// `lazy()`: built with debug assertions off (its constructor chain uses #[track_caller]); the trailing
// `any().repeated()` is a loop, so the harness bounds the number of tokens left after the grammar.

use super::fw::*;
use crate::prelude::*;
use crate::Parser;

/// `lazy()` accepts a prefix: the parse succeeds iff the grammar does, whatever follows.
pub fn h_lazy<const CHECK: bool>() {
    let len = ch::any_usize();
    let mut st = VState::new(len);
    // bound of this harness: at most 2 tokens remain after the grammar
    st.tail_bound = Some(2);
    let g = anyp::<SymIn<u8>, X<VS>>(0).lazy();
    let (has_out, nerr) = if CHECK {
        let r = g.check_with_state(SymIn::new(len), &mut st);
        (r.has_output(), r.into_errors().len())
    } else {
        let r = g.parse_with_state(SymIn::new(len), &mut st);
        (r.has_output(), r.into_errors().len())
    };
    let a = st.log[0];
    vcover!(has_out && a.exit_pos < len, "lazy: proper prefix accepted");
    vassert!(has_out == a.ok, "C03/lazy.accepts-iff-the-grammar-matches-a-prefix");
    if has_out {
        vassert!(nerr == a.emitted, "C03/lazy.errors-are-exactly-the-emitted-ones");
        vassert!(st.believed == len, "C18/lazy.final-state-reflects-the-whole-input");
    } else {
        vassert!(nerr >= 1, "C03/lazy.no-output-implies-at-least-one-error");
    }
}


harnesses! {
    #[kani::unwind(5)]
    lazy_parse_b2 = h_lazy::<false>;
    #[kani::unwind(5)]
    lazy_check_b2 = h_lazy::<true>;
}
