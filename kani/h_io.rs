// C10: `IoInput` (a seekable reader behind a `BufReader`) against the `Input` contract: `next` at a cursor at
// index i yields byte i of the underlying data and moves the cursor to i+1, `None` at the end without
// moving - however the cursor was moved since the previous read (forwards by a lookahead that read less
// than the kept parser, backwards by a rewind). The reader is a ghost model over a small symbolic buffer
// (`_b4`: <= 4 bytes of data; the cursors and the order of reads are symbolic). `BufReader`, `Read::read_exact`
// and `seek_relative` are std's and run as they are.
// @config debug_assertions=on

use super::fw::*;
use crate::input::{Input, IoInput, ValueInput};
use std::io::{Read, Result as IoResult, Seek, SeekFrom};

pub struct GhostReader {
    data: [u8; 4],
    len: usize,
    pos: usize,
    /// ghost: number of bytes handed out / seeks performed
    reads: usize,
    seeks: usize,
}
impl Read for GhostReader {
    fn read(&mut self, buf: &mut [u8]) -> IoResult<usize> {
        let mut n = 0;
        unroll!(k in [0, 1, 2, 3] {
            let _ = k;
            if self.pos < self.len && n < buf.len() {
                buf[n] = self.data[self.pos];
                self.pos += 1;
                n += 1;
            }
        });
        self.reads = self.reads.wrapping_add(n);
        Ok(n)
    }
}
impl Seek for GhostReader {
    fn seek(&mut self, to: SeekFrom) -> IoResult<u64> {
        self.seeks = self.seeks.wrapping_add(1);
        let np: i64 = match to {
            SeekFrom::Start(p) => p as i64,
            SeekFrom::End(d) => self.len as i64 + d,
            SeekFrom::Current(d) => self.pos as i64 + d,
        };
        if np < 0 {
            return Err(std::io::Error::from(std::io::ErrorKind::InvalidInput));
        }
        self.pos = np as usize;
        Ok(np as u64)
    }
}

/// Two reads at arbitrary cursors (the second one anywhere relative to where the first one left the
/// reader): each behaves as a read of the underlying data at its own cursor.
pub fn h_io_input() {
    let len = ch::below(4);
    let data = [ch::any_u8(), ch::any_u8(), ch::any_u8(), ch::any_u8()];
    let rd = GhostReader { data, len, pos: 0, reads: 0, seeks: 0 };
    let (c0, mut cache) = IoInput::new(rd).begin();
    vassert!(c0 == 0, "C10/io.begin-at-index-zero");
    let spec = |c: usize| if c < len { Some(data[c]) } else { None };
    let mut c1 = ch::below(len);
    let at1 = c1;
    let t1 = unsafe { <IoInput<GhostReader> as ValueInput>::next(&mut cache, &mut c1) };
    vassert!(t1 == spec(at1), "C10/io.next-yields-the-byte-at-the-cursor-none-only-at-the-end");
    vassert!(c1 == at1 + if t1.is_some() { 1 } else { 0 }, "C10/io.next-advances-by-one-iff-a-byte-was-read");
    // the parser now moves the cursor anywhere (rewind, or re-positioning after a lookahead)
    let mut c2 = ch::below(len);
    let at2 = c2;
    vcover!(at2 > c1, "io: second read ahead of the reader position");
    vcover!(at2 < c1, "io: second read behind the reader position");
    vcover!(at2 == c1 && at2 < len, "io: sequential read");
    let t2 = unsafe { <IoInput<GhostReader> as Input>::next_maybe(&mut cache, &mut c2) };
    vassert!(t2 == spec(at2), "C10/io.read-after-moving-the-cursor-yields-the-byte-at-the-new-cursor");
    vassert!(c2 == at2 + if t2.is_some() { 1 } else { 0 }, "C10/io.read-after-moving-the-cursor-advances-from-the-new-cursor");
    let sp = unsafe { <IoInput<GhostReader> as Input>::span(&mut cache, &at1..&c2) };
    vassert!(sp.start == at1 && sp.end == c2, "C07/io.span-is-the-cursor-range");
    vassert!(<IoInput<GhostReader> as Input>::cursor_location(&c2) == c2, "C10/io.cursor-location-is-the-byte-index");
}

harnesses! {
    #[kani::unwind(6)]
    io_input_b4 = h_io_input;
}
