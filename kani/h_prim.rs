// Contracts of the primitive matchers, proved for the real `go` bodies on the symbolic input of
// unbounded length from a symbolic entry state. Oracle: a re-read of the token at the entry position.

use super::fw::*;
use crate::prelude::*;
use crate::private::{Check, Emit, Mode};
use crate::Parser;

/// Token at the entry position (None at end of input), as the input would deliver it.
fn tok_here<T: SymTok>(inp: &mut IR<'_, T, VErr>, s0: &S0) -> Option<T> {
    if s0.pos < s0.len {
        Some(inp.cache.tok_at(s0.pos))
    } else {
        None
    }
}

/// Obligations shared by all one-token matchers. `accept` = the oracle's verdict for the token here.
macro_rules! one_token_contract {
    ($name:literal, $inp:expr, $s0:expr, $r:expr, $here:expr, $accept:expr, $out_ok:expr) => {{
        let s = snap($inp);
        let alt = alt_full($inp);
        let here = $here;
        let accept: bool = $accept;
        vassert!($r.is_ok() == accept, concat!("C01/", $name, ".accepts-iff-token-here-matches"));
        vassert!(s.nsec == $s0.nsec, concat!("C05/", $name, ".emits-nothing"));
        vassert!(s.believed == s.pos, concat!("C18/", $name, ".inspector-at-position"));
        if accept {
            vcover!(true, concat!($name, ": token accepted"));
            vassert!(s.pos == $s0.pos + 1, concat!("C01/", $name, ".consumes-exactly-one-token"));
            vassert!($out_ok, concat!("C01/", $name, ".output-is-the-token"));
            vassert!(alt.map(|a| (a.0, a.1.id)) == $s0.alt, concat!("C06/", $name, ".success-leaves-pending-error-alone"));
        } else {
            vcover!(here.is_none(), concat!($name, ": end of input"));
            vassert!(s.pos == $s0.pos, concat!("C01/", $name, ".failure-restores-position"));
            vassert!(alt.is_some(), concat!("C20/", $name, ".failure-leaves-pending-error"));
            let (prio, span, found) = prim_alt_spec(&$s0, alt, here.map(|t| t.code()));
            vassert!(prio, concat!("C06/", $name, ".failure-offered-at-entry-position-by-priority"));
            vassert!(span, concat!("C06/", $name, ".error-span-is-the-offending-token"));
            vassert!(found, concat!("C06/", $name, ".found-is-token-at-span-start-none-only-at-end"));
        }
    }};
}

pub fn h_any<M: VMode>() {
    run::<u8, VErr, (), _>(|inp, s0| {
        let r = any::<SymIn<u8>, X<VErr>>().gov::<M>(inp);
        let here = tok_here(inp, &s0);
        one_token_contract!("any", inp, s0, r, here, here.is_some(), ok_with::<M, _>(&r, here.unwrap_or(0)));
    });
}

pub fn h_just<M: VMode>() {
    run::<u8, VErr, (), _>(|inp, s0| {
        let t = ch::any_u8();
        let r = just::<u8, SymIn<u8>, X<VErr>>(t).gov::<M>(inp);
        let here = tok_here(inp, &s0);
        vcover!(r.is_err() && here.is_some(), "just: token rejected");
        one_token_contract!("just", inp, s0, r, here, here == Some(t), ok_with::<M, _>(&r, t));
    });
}

pub fn h_just_char<M: VMode>() {
    run::<char, VErr, (), _>(|inp, s0| {
        let t = ch::any_char();
        let r = just::<char, SymIn<char>, X<VErr>>(t).gov::<M>(inp);
        let here = tok_here(inp, &s0);
        one_token_contract!("just", inp, s0, r, here, here == Some(t), ok_with::<M, _>(&r, t));
    });
}

pub fn h_one_of<M: VMode>() {
    run::<u8, VErr, (), _>(|inp, s0| {
        let set = [ch::any_u8(), ch::any_u8()];
        let r = one_of::<[u8; 2], SymIn<u8>, X<VErr>>(set).gov::<M>(inp);
        let here = tok_here(inp, &s0);
        let member = match here {
            Some(t) => t == set[0] || t == set[1],
            None => false,
        };
        vcover!(r.is_err() && here.is_some(), "one_of: token rejected");
        one_token_contract!("one_of", inp, s0, r, here, member, ok_with::<M, _>(&r, here.unwrap_or(0)));
    });
}

pub fn h_none_of<M: VMode>() {
    run::<u8, VErr, (), _>(|inp, s0| {
        let set = [ch::any_u8(), ch::any_u8()];
        let r = none_of::<[u8; 2], SymIn<u8>, X<VErr>>(set).gov::<M>(inp);
        let here = tok_here(inp, &s0);
        let ok = match here {
            Some(t) => t != set[0] && t != set[1],
            None => false,
        };
        vcover!(r.is_err() && here.is_some(), "none_of: token rejected");
        one_token_contract!("none_of", inp, s0, r, here, ok, ok_with::<M, _>(&r, here.unwrap_or(0)));
    });
}

pub fn h_select<M: VMode>() {
    run::<u8, VErr, (), _>(|inp, s0| {
        let thr = ch::any_u8();
        let p = crate::primitive::select::<_, SymIn<u8>, u16, X<VErr>>(move |t: u8, e| {
            // user code observes span, slice-free state and inspector here (C07 / C18)
            let sp = e.span();
            let st = e.state();
            st.reg[0] = sp.start;
            st.reg[1] = sp.end;
            st.reg[2] = st.believed;
            st.flag[0] = true;
            if t < thr {
                Some(t as u16 + 1)
            } else {
                None
            }
        });
        let r = p.gov::<M>(inp);
        let here = tok_here(inp, &s0);
        let accept = match here {
            Some(t) => t < thr,
            None => false,
        };
        vcover!(r.is_err() && here.is_some(), "select: token rejected");
        one_token_contract!("select", inp, s0, r, here, accept, ok_with::<M, _>(&r, here.unwrap_or(0) as u16 + 1));
        let st = inp.state();
        vassert!(st.flag[0] == here.is_some(), "C01/select.filter-consulted-iff-a-token-is-present");
        if st.flag[0] {
            vassert!(st.reg[0] == s0.pos && st.reg[1] == s0.pos + 1, "C07/select.span-seen-by-filter-is-exactly-the-token");
            vassert!(st.reg[2] == s0.pos + 1, "C18/select.state-seen-by-filter-reflects-tokens-before-position");
        }
    });
}

/// any_ref / select_ref: the borrowing twins of any / select (same contract, output is a reference to
/// the token).
pub fn h_any_ref<M: VMode>() {
    run::<u8, VErr, (), _>(|inp, s0| {
        let r = crate::primitive::any_ref::<SymIn<u8>, X<VErr>>().gov::<M>(inp);
        let here = tok_here(inp, &s0);
        let out_ok = match &r {
            Ok(o) => M::peek(o).map(|x: &u8| Some(*x) == here).unwrap_or(true),
            Err(()) => false,
        };
        one_token_contract!("any_ref", inp, s0, r, here, here.is_some(), out_ok);
    });
}
pub fn h_select_ref<M: VMode>() {
    run::<u8, VErr, (), _>(|inp, s0| {
        let thr = ch::any_u8();
        let p = crate::primitive::select_ref::<_, SymIn<u8>, u16, X<VErr>>(move |t: &u8, e| {
            let sp = e.span();
            let st = e.state();
            st.reg[0] = sp.start;
            st.reg[1] = sp.end;
            st.reg[2] = st.believed;
            st.flag[0] = true;
            if *t < thr {
                Some(*t as u16 + 1)
            } else {
                None
            }
        });
        let r = p.gov::<M>(inp);
        let here = tok_here(inp, &s0);
        let accept = match here {
            Some(t) => t < thr,
            None => false,
        };
        vcover!(r.is_err() && here.is_some(), "select_ref: token rejected");
        one_token_contract!("select_ref", inp, s0, r, here, accept, ok_with::<M, _>(&r, here.unwrap_or(0) as u16 + 1));
        let st = inp.state();
        vassert!(st.flag[0] == here.is_some(), "C01/select_ref.filter-consulted-iff-a-token-is-present");
        if st.flag[0] {
            vassert!(st.reg[0] == s0.pos && st.reg[1] == s0.pos + 1, "C07/select_ref.span-seen-by-filter-is-exactly-the-token");
            vassert!(st.reg[2] == s0.pos + 1, "C18/select_ref.state-seen-by-filter-reflects-tokens-before-position");
        }
    });
}

pub fn h_end<M: VMode>() {
    run::<u8, VErr, (), _>(|inp, s0| {
        let r = end::<SymIn<u8>, X<VErr>>().gov::<M>(inp);
        let s = snap(inp);
        let alt = alt_full(inp);
        let here = tok_here(inp, &s0);
        vassert!(r.is_ok() == (s0.pos == s0.len), "C03/end.accepts-iff-no-token-remains");
        vassert!(s.pos == s0.pos, "C01/end.consumes-nothing");
        vassert!(s.nsec == s0.nsec, "C05/end.emits-nothing");
        vassert!(s.believed == s.pos, "C18/end.inspector-at-position");
        if r.is_err() {
            vcover!(true, "end: token remains");
            vassert!(alt.is_some(), "C20/end.failure-leaves-pending-error");
            let (prio, span, found) = prim_alt_spec(&s0, alt, here.map(|t| t.code()));
            vassert!(prio, "C06/end.failure-offered-at-entry-position-by-priority");
            vassert!(span, "C06/end.error-span-is-the-offending-token");
            vassert!(found, "C06/end.found-is-the-remaining-token");
        } else {
            vcover!(true, "end: at end of input");
            vassert!(alt.map(|a| (a.0, a.1.id)) == s0.alt, "C06/end.success-leaves-pending-error-alone");
        }
    });
}

pub fn h_empty<M: VMode>() {
    run::<u8, VErr, (), _>(|inp, s0| {
        let r = empty::<SymIn<u8>, X<VErr>>().gov::<M>(inp);
        let s = snap(inp);
        vassert!(r.is_ok(), "C01/empty.always-succeeds");
        vassert!(s.pos == s0.pos && s.nsec == s0.nsec && s.alt == s0.alt && s.believed == s.pos, "C01/empty.changes-nothing");
        vcover!(true, "empty: ran");
    });
}

/// `custom`: the closure is arbitrary user code that may consume input and then fail.
pub fn h_custom<M: VMode>() {
    run::<u8, VErr, (), _>(|inp, s0| {
        let p = custom::<_, SymIn<u8>, u16, X<VErr>>(|inp| {
            let len = inp.state.len;
            let adv = ch::below(len - inp.cursor);
            inp.cursor += adv;
            inp.state.believed = inp.state.believed.wrapping_add(adv);
            inp.state.reg[0] = inp.cursor;
            if ch::any_bool() {
                inp.state.flag[0] = true;
                Ok(9)
            } else {
                Err(VErr::mk(77, 0, 0))
            }
        });
        let r = p.gov::<M>(inp);
        let s = snap(inp);
        let ok = inp.state.flag[0];
        vassert!(r.is_ok() == ok, "C01/custom.succeeds-iff-user-code-returns-ok");
        vassert!(s.pos == inp.state.reg[0], "C01/custom.position-is-where-user-code-left-it");
        vassert!(s.nsec == s0.nsec, "C05/custom.emits-nothing-itself");
        if ok {
            vcover!(true, "custom: ok");
            vassert!(ok_with::<M, _>(&r, 9u16), "C01/custom.output-is-user-value");
            vassert!(s.alt == s0.alt, "C06/custom.success-leaves-pending-error-alone");
        } else {
            vcover!(s.pos > s0.pos, "custom: fails after consuming");
            vassert!(s.alt.is_some(), "C20/custom.failure-leaves-pending-error");
            vassert!(Offers::entry(&s0).at(s0.pos, 77).matches(&s), "C06/custom.user-error-offered-at-entry-position-by-priority");
        }
    });
}

/// `just` of a two-token sequence (a loop over the pattern): bounded by the pattern length.
pub fn h_just_seq2<M: VMode>() {
    run::<u8, VErr, (), _>(|inp, s0| {
        let pat = [ch::any_u8(), ch::any_u8()];
        let r = just::<[u8; 2], SymIn<u8>, X<VErr>>(pat).gov::<M>(inp);
        let s = snap(inp);
        let alt = alt_full(inp);
        let t0 = if s0.pos < s0.len { Some(inp.cache.tok_at(s0.pos)) } else { None };
        let t1 = if s0.pos < s0.len && 1 < s0.len - s0.pos { Some(inp.cache.tok_at(s0.pos + 1)) } else { None };
        let m0 = t0 == Some(pat[0]);
        let m1 = t1 == Some(pat[1]);
        vassert!(r.is_ok() == (m0 && m1), "C01/just_seq.accepts-iff-every-token-of-the-pattern-matches-in-order");
        vassert!(s.nsec == s0.nsec, "C05/just_seq.emits-nothing");
        if r.is_ok() {
            vcover!(true, "just_seq: accepted");
            vassert!(s.pos == s0.pos + 2 && s.believed == s.pos, "C01/just_seq.consumes-exactly-the-pattern");
            vassert!(ok_with::<M, _>(&r, pat), "C01/just_seq.output-is-the-pattern");
        } else {
            vcover!(m0 && !m1, "just_seq: second token mismatches");
            vassert!(alt.is_some(), "C20/just_seq.failure-leaves-pending-error");
            // the mismatch is reported at the offending token, by priority
            let at = if m0 { s0.pos + 1 } else { s0.pos };
            let here = if m0 { t1 } else { t0 };
            let s1 = S0 { len: s0.len, pos: at, nsec: s0.nsec, alt: s0.alt };
            let (prio, span, found) = prim_alt_spec(&s1, alt, here.map(|t| t.code()));
            vassert!(prio, "C06/just_seq.failure-offered-at-the-offending-token-by-priority");
            vassert!(span, "C06/just_seq.error-span-is-the-offending-token");
            vassert!(found, "C06/just_seq.found-is-token-at-span-start-none-only-at-end");
        }
    });
}

harnesses! {
    #[kani::unwind(5)]
    just_seq2_emit_b2 = h_just_seq2::<Emit>;
    #[kani::unwind(5)]
    just_seq2_check_b2 = h_just_seq2::<Check>;
    any_emit = h_any::<Emit>;
    any_check = h_any::<Check>;
    just_emit = h_just::<Emit>;
    just_check = h_just::<Check>;
    just_char_emit = h_just_char::<Emit>;
    one_of_emit = h_one_of::<Emit>;
    one_of_check = h_one_of::<Check>;
    none_of_emit = h_none_of::<Emit>;
    none_of_check = h_none_of::<Check>;
    select_emit = h_select::<Emit>;
    select_check = h_select::<Check>;
    any_ref_emit = h_any_ref::<Emit>;
    any_ref_check = h_any_ref::<Check>;
    select_ref_emit = h_select_ref::<Emit>;
    select_ref_check = h_select_ref::<Check>;
    end_emit = h_end::<Emit>;
    end_check = h_end::<Check>;
    empty_emit = h_empty::<Emit>;
    custom_emit = h_custom::<Emit>;
    custom_check = h_custom::<Check>;
}
