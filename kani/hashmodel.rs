// Assumed contract of the dependency `hashbrown::HashMap`, as far as `Memoized::go` uses it (entry /
// get / insert / remove on a finite map). CBMC does not get through hashbrown's SIMD probing and hashing
// (measured: no result in 25 min), so under `cfg(kani)` with the `memoization` feature this module is
// declared as `crate::verif_hashmodel` by a cfg-guarded hook in /repo/src/lib.rs: the crate's `HashMap`
// (the type of `InputRef::memos`) and, in combinator.rs, the path `hashbrown::hash_map::Entry` then name
// this contract instead of the extern crate. Natively (replay, tests, every ordinary build) the real
// hashbrown is used.
//
// The contract is the mathematical finite map: `entry(k)` is `Occupied` iff `k` is bound, `insert`
// binds (returning the old value), `remove` unbinds, no operation touches another key. The map holds at
// most CAP bindings; a harness that needs more is *undecided* (FW/ obligation + assume), never a pass.
// This file is listed by the assumptions scan as an assumed (unverified) contract on a dependency.

pub use self::hash_map::HashMap;

pub mod hash_map {
    pub const CAP: usize = 3;

    pub struct HashMap<K, V> {
        pub slots: [Option<(K, V)>; CAP],
    }
    impl<K, V> Default for HashMap<K, V> {
        fn default() -> Self {
            HashMap { slots: [None, None, None] }
        }
    }
    impl<K: Eq, V> HashMap<K, V> {
        pub fn with_capacity(_n: usize) -> Self {
            Self::default()
        }
        pub fn len(&self) -> usize {
            let mut n = 0;
            if self.slots[0].is_some() {
                n += 1;
            }
            if self.slots[1].is_some() {
                n += 1;
            }
            if self.slots[2].is_some() {
                n += 1;
            }
            n
        }
        fn find(&self, k: &K) -> Option<usize> {
            if let Some((kk, _)) = &self.slots[0] {
                if kk == k {
                    return Some(0);
                }
            }
            if let Some((kk, _)) = &self.slots[1] {
                if kk == k {
                    return Some(1);
                }
            }
            if let Some((kk, _)) = &self.slots[2] {
                if kk == k {
                    return Some(2);
                }
            }
            None
        }
        fn free(&self) -> usize {
            if self.slots[0].is_none() {
                0
            } else if self.slots[1].is_none() {
                1
            } else {
                // capacity of the model: exceeding it makes the run undecided, never a pass
                kani::assert(self.slots[2].is_none(), "FW/hashmodel-capacity: harness bound more keys than the map model holds");
                kani::assume(self.slots[2].is_none());
                2
            }
        }
        pub fn contains_key(&self, k: &K) -> bool {
            self.find(k).is_some()
        }
        pub fn get(&self, k: &K) -> Option<&V> {
            match self.find(k) {
                Some(i) => self.slots[i].as_ref().map(|kv| &kv.1),
                None => None,
            }
        }
        pub fn insert(&mut self, k: K, v: V) -> Option<V> {
            match self.find(&k) {
                Some(i) => {
                    let old = self.slots[i].take();
                    self.slots[i] = Some((k, v));
                    old.map(|kv| kv.1)
                }
                None => {
                    let i = self.free();
                    self.slots[i] = Some((k, v));
                    None
                }
            }
        }
        pub fn remove(&mut self, k: &K) -> Option<V> {
            match self.find(k) {
                Some(i) => self.slots[i].take().map(|kv| kv.1),
                None => None,
            }
        }
        pub fn entry(&mut self, key: K) -> Entry<'_, K, V> {
            match self.find(&key) {
                Some(idx) => Entry::Occupied(OccupiedEntry { map: self, idx }),
                None => Entry::Vacant(VacantEntry { map: self, key }),
            }
        }
    }
    pub enum Entry<'a, K, V> {
        Occupied(OccupiedEntry<'a, K, V>),
        Vacant(VacantEntry<'a, K, V>),
    }
    pub struct OccupiedEntry<'a, K, V> {
        map: &'a mut HashMap<K, V>,
        idx: usize,
    }
    impl<'a, K: Eq, V> OccupiedEntry<'a, K, V> {
        pub fn get(&self) -> &V {
            match &self.map.slots[self.idx] {
                Some(kv) => &kv.1,
                None => unreachable!(),
            }
        }
    }
    pub struct VacantEntry<'a, K, V> {
        map: &'a mut HashMap<K, V>,
        key: K,
    }
    impl<'a, K: Eq, V> VacantEntry<'a, K, V> {
        pub fn insert(self, v: V) -> &'a mut V {
            let i = self.map.free();
            self.map.slots[i] = Some((self.key, v));
            match &mut self.map.slots[i] {
                Some(kv) => &mut kv.1,
                None => unreachable!(),
            }
        }
    }
}
