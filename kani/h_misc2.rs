// @config debug_assertions=off
// C15 harnesses that construct `repeated()` (a #[track_caller] constructor under debug assertions).
use super::fw::*;
use crate::private::{Check, Emit, Mode};
pub use super::h_misc::{h_configure_repeated, h_try_configure};
harnesses! {
    configure_repeated_emit = h_configure_repeated::<Emit>;
    configure_repeated_check = h_configure_repeated::<Check>;
    try_configure_emit = h_try_configure::<Emit>;
}
