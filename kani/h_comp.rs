// @config debug_assertions=off
// Compositions of the real iterable parsers with the real collecting driver and a real `Vec`:
// `p.repeated().at_least(a).at_most(b).collect::<Vec<_>>()` and its configure() form, with bounds of the
// full `usize` range. The step functions and the drivers have their own contracts against stubs
// (h_iter.rs); what only the composition shows is what the driver and the iterable parser exchange besides
// `next` (sizing hints, state set-up), and that no bound, however large, makes the parse panic (C20:
// "every input yields a result, never a panic" - the count may come from the input through configure()).
// Bounded: the item stub fails at its third call at the latest.

use super::fw::*;
use super::h_comb::VEr;
use crate::prelude::*;
use crate::private::{Check, Emit, Mode};
use crate::{ConfigIterParser, IterParser, Parser};
use alloc::vec::Vec;

const B: usize = 3;
type XC = X<VS, u16>;

/// reference: greedy iteration over the logged item attempts (call k in slot k), capped
fn greedy<'p, C: CtxId + Default + 'static>(inp: &mut IR<'p, u8, VS, C>, s0: &S0, capped: bool, cap: usize) -> (bool, bool, usize, usize, [u16; 4]) {
    let mut pos = s0.pos;
    let mut nsec = s0.nsec;
    let mut n = 0usize;
    let mut live = true;
    let mut chain = true;
    let mut items = [0u16; 4];
    unroll!(k in [0, 1, 2] {
        let l = lg(inp, k);
        let want_call = live && !(capped && n >= cap);
        if want_call {
            if !(l.called && l.calls == 1 && l.entry_pos == pos && l.entry_sec == nsec && l.entry_believed == pos) {
                chain = false;
            }
            if l.ok {
                pos = l.exit_pos;
                nsec = nsec.wrapping_add(l.emitted);
                items[n] = l.out;
                n += 1;
            } else {
                live = false;
            }
        } else {
            if l.called {
                chain = false;
            }
            live = false;
        }
    });
    (live, chain, n, pos, items)
}
fn vec_is(v: &Vec<u16>, n: usize, items: &[u16; 4]) -> bool {
    if v.len() != n {
        return false;
    }
    // contents of the heap buffer are compared natively only (see fw::snap)
    #[cfg(not(kani))]
    {
        let mut k = 0;
        while k < n {
            if v[k] != items[k] {
                return false;
            }
            k += 1;
        }
    }
    let _ = items;
    true
}

pub fn h_repeated_collect_vec<M: VMode>() {
    run::<u8, VS, (), _>(|inp, s0| {
        inp.state.quiet = true;
        let at_least = ch::any_usize();
        let capped = ch::any_bool();
        let cap = ch::any_usize();
        ch::assume(!capped || at_least <= cap); // the empty range is the corner reported by the step contract
        let mut item = anyp_multi::<SymIn<u8>, X<VS>>(0, B);
        item.progress = true;
        item.bounded = true;
        let mut rep = item.repeated().at_least(at_least);
        if capped {
            rep = rep.at_most(cap);
        }
        let r = rep.collect::<Vec<u16>>().gov::<M>(inp);
        let s = snap(inp);
        let (live, chain, n, pos, items) = greedy(inp, &s0, capped, cap);
        vassert!(!live, "FW/driver-bound-sufficient");
        ch::assume(!live);
        vcover!(at_least > (1usize << 62), "repeated collect: enormous minimum");
        vassert!(chain, "C02/repeated_collect.greedy-item-attempts-in-sequence-stopping-at-first-failure-or-cap");
        vassert!(r.is_ok() == (n >= at_least), "C02/repeated_collect.succeeds-iff-count-within-bounds");
        match &r {
            Ok(o) => {
                vcover!(n == 2, "repeated collect: two items");
                vassert!(s.pos == pos && s.believed == s.pos, "C02/repeated_collect.position-just-after-last-accepted-item");
                if let Some(v) = M::peek_ref(o) {
                    vassert!(vec_is(v, n, &items), "C02/repeated_collect.vector-holds-exactly-the-items-in-input-order");
                }
            }
            Err(()) => {
                vcover!(true, "repeated collect: too few items");
                vassert!(s.alt.is_some(), "C20/repeated_collect.failure-leaves-pending-error");
            }
        }
    });
}

/// The count comes from the context (i.e. from an earlier part of the input) through configure().
pub fn h_configure_collect_vec<M: VMode>() {
    run::<u8, VS, u16, _>(|inp, s0| {
        inp.state.quiet = true;
        let scale = ch::any_usize();
        let ctx = ch::any_u16();
        let want = (ctx as usize).wrapping_mul(scale);
        let mut item = anyp_multi::<SymIn<u8>, XC>(0, B);
        item.progress = true;
        item.bounded = true;
        let p = item
            .repeated()
            .configure(move |cfg, c: &u16| cfg.exactly((*c as usize).wrapping_mul(scale)))
            .collect::<Vec<u16>>()
            .with_ctx(ctx);
        let r = p.gov::<M>(inp);
        let s = snap(inp);
        let (live, chain, n, pos, items) = greedy(inp, &s0, true, want);
        vassert!(!live, "FW/driver-bound-sufficient");
        ch::assume(!live);
        vcover!(want > (1usize << 62), "configure collect: enormous count from the context");
        vassert!(chain, "C02/configure_collect.greedy-item-attempts-in-sequence-stopping-at-first-failure-or-cap");
        vassert2!(r.is_ok() == (n == want), "C02/configure_collect.succeeds-iff-exactly-the-configured-count", "C15/configure_collect.matches-as-the-statically-configured-parser");
        match &r {
            Ok(o) => {
                vcover!(n == 2, "configure collect: two items");
                vassert!(s.pos == pos && s.believed == s.pos, "C02/configure_collect.position-just-after-last-accepted-item");
                if let Some(v) = M::peek_ref(o) {
                    vassert!(vec_is(v, n, &items), "C02/configure_collect.vector-holds-exactly-the-items-in-input-order");
                }
            }
            Err(()) => {
                vcover!(true, "configure collect: wrong count");
                vassert!(s.alt.is_some(), "C20/configure_collect.failure-leaves-pending-error");
            }
        }
    });
}

/// The configured repetition used directly as a parser (`IterConfigure::go` / `TryIterConfigure::go`: no
/// collect): same acceptance and position as the statically configured repetition.
pub fn h_configure_go<M: VMode, const TRY: bool>() {
    run::<u8, VS, u16, _>(|inp, s0| {
        inp.state.quiet = true;
        let ctx = ch::any_u16();
        let want = (ctx % 4) as usize;
        let mut item = anyp_multi::<SymIn<u8>, XC>(0, B);
        item.progress = true;
        item.bounded = true;
        let r = if TRY {
            item.repeated().try_configure(move |cfg, c: &u16, _span| Ok(cfg.exactly((*c % 4) as usize))).with_ctx(ctx).gov::<M>(inp)
        } else {
            item.repeated().configure(move |cfg, c: &u16| cfg.exactly((*c % 4) as usize)).with_ctx(ctx).gov::<M>(inp)
        };
        let s = snap(inp);
        let (live, chain, n, pos, _items) = greedy(inp, &s0, true, want);
        vassert!(!live, "FW/driver-bound-sufficient");
        ch::assume(!live);
        vcover!(r.is_ok() && n == 2, "configure go: two items, as configured");
        vcover!(r.is_err() && n == 1, "configure go: fewer items than configured");
        vassert!(chain, "C02/configure_go.greedy-item-attempts-in-sequence-stopping-at-first-failure-or-cap");
        vassert2!(r.is_ok() == (n == want), "C02/configure_go.succeeds-iff-exactly-the-configured-count", "C15/configure_go.matches-as-the-statically-configured-parser");
        if r.is_ok() {
            vassert!(s.pos == pos && s.believed == s.pos, "C02/configure_go.position-just-after-last-accepted-item");
        } else {
            vassert!(s.alt.is_some(), "C20/configure_go.failure-leaves-pending-error");
        }
    });
}

harnesses! {
    #[kani::unwind(5)]
    repeated_collect_vec_emit_b3 = h_repeated_collect_vec::<Emit>;
    #[kani::unwind(5)]
    repeated_collect_vec_check_b3 = h_repeated_collect_vec::<Check>;
    #[kani::unwind(5)]
    configure_collect_vec_emit_b3 = h_configure_collect_vec::<Emit>;
    #[kani::unwind(5)]
    configure_go_emit_b3 = h_configure_go::<Emit, false>;
    #[kani::unwind(5)]
    configure_go_check_b3 = h_configure_go::<Check, false>;
    #[kani::unwind(5)]
    try_configure_go_emit_b3 = h_configure_go::<Emit, true>;
}
