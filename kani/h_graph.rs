// C10, Graphemes: `<&Graphemes as Input>::next_maybe` yields exactly the extended grapheme clusters of the
// string, one after the other, its cursor always on a cluster boundary. Bounded: all ASCII strings of two
// bytes (where the only multi-byte cluster is CR LF); the segmentation itself is the dependency's
// (unicode-segmentation, run for real here, not assumed). Non-ASCII text is not covered.

use super::fw::*;
use crate::input::Input;
use crate::text::{Grapheme, Graphemes};

pub fn h_graphemes_ascii2() {
    let buf = [ch::any_u8(), ch::any_u8()];
    ch::assume(buf[0] < 128 && buf[1] < 128);
    let s = match core::str::from_utf8(&buf) {
        Ok(s) => s,
        Err(_) => return,
    };
    let g: &'static Graphemes = Graphemes::new(unsafe { core::mem::transmute::<&str, &'static str>(s) });
    type GI = &'static Graphemes;
    let (mut c, mut cache) = <GI as Input<'static>>::begin(g);
    vassert!(c == 0, "C10/graphemes.begin-is-position-zero");
    let crlf = buf[0] == b'\r' && buf[1] == b'\n';
    let t1: Option<&Grapheme> = unsafe { <GI as Input<'static>>::next_maybe(&mut cache, &mut c) };
    vcover!(crlf, "graphemes: CR LF");
    vcover!(!crlf, "graphemes: two single-byte clusters");
    let l1 = t1.map(|t| t.as_str().len()).unwrap_or(0);
    vassert!(t1.is_some() && l1 == if crlf { 2 } else { 1 }, "C10/graphemes.first-token-is-the-first-extended-grapheme-cluster");
    vassert!(c == l1, "C10/graphemes.cursor-advances-by-the-cluster");
    let t2: Option<&Grapheme> = unsafe { <GI as Input<'static>>::next_maybe(&mut cache, &mut c) };
    if crlf {
        vassert!(t2.is_none() && c == 2, "C10/graphemes.none-at-the-end-without-moving");
    } else {
        vassert!(t2.map(|t| t.as_str().len()) == Some(1) && c == 2, "C10/graphemes.second-token-is-the-second-cluster");
    }
}

harnesses! {
    #[kani::unwind(6)]
    graphemes_ascii_b2 = h_graphemes_ascii2;
}
