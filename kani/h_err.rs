// Contracts of the library's own error types (`EmptyErr`, `Cheap`, `Simple`, `Rich`): the operations the
// pending-error rule of `add_alt` / `add_alt_err` is built from (`expected_found`, `merge`,
// `merge_expected_found`, `replace_expected_found`) and the decorations of `labelled` (`label_with`,
// `in_context`). Taken from the statements of C06 ("expected set is the union ... a user-supplied error at
// that position is preserved ... Cheap, Simple and Rich report the same span") and C17.
//
// Spans, found tokens and the choice of patterns are fully symbolic; the *number* of expected patterns per
// error is bounded (<= 2 per side; 1 per side where two lists are merged), hence the `_b2` / `_b1` names:
// `Rich` keeps them in a `Vec` that is searched and extended in loops.
// @config debug_assertions=on

use super::fw::*;
use crate::error::{Cheap, EmptyErr, Error, LabelError, Rich, RichPattern, RichReason, Simple};
use crate::span::SimpleSpan;
use crate::util::MaybeRef;
use crate::DefaultExpected;

type In = SymIn<u8>;
type Sp = SimpleSpan<usize>;
type Exp = DefaultExpected<'static, u8>;
type R = Rich<'static, u8, Sp>;

fn any_span() -> Sp {
    let a = ch::any_usize();
    let b = ch::any_usize();
    ch::assume(a <= b);
    (a..b).into()
}
fn any_found() -> Option<u8> {
    if ch::any_bool() {
        Some(ch::any_u8())
    } else {
        None
    }
}
fn mr(f: Option<u8>) -> Option<MaybeRef<'static, u8>> {
    f.map(MaybeRef::Val)
}
/// A symbolic expected pattern, as (kind, token).
#[derive(Clone, Copy, PartialEq, Eq)]
struct P(u8, u8);
fn any_pat() -> P {
    let k = ch::below(3) as u8;
    let t = if k == 3 { ch::any_u8() } else { 0 };
    P(k, t)
}
fn exp_of(p: P) -> Exp {
    match p.0 {
        0 => DefaultExpected::Any,
        1 => DefaultExpected::EndOfInput,
        2 => DefaultExpected::SomethingElse,
        _ => DefaultExpected::Token(MaybeRef::Val(p.1)),
    }
}
fn is_pat(r: &RichPattern<'static, u8>, p: P) -> bool {
    match (r, p.0) {
        (RichPattern::Any, 0) => true,
        (RichPattern::EndOfInput, 1) => true,
        (RichPattern::SomethingElse, 2) => true,
        (RichPattern::Token(t), 3) => **t == p.1,
        _ => false,
    }
}
/// A set of one or two expected patterns.
#[derive(Clone, Copy)]
struct Set {
    a: P,
    b: Option<P>,
}
/// a one-element set (the merge harnesses: comparing patterns is what the solver pays for - the derived
/// equality of `RichPattern` includes string comparisons - and 2+2 patterns exhaust its memory)
fn any_set1() -> Set {
    Set { a: any_pat(), b: None }
}
fn any_set() -> Set {
    Set { a: any_pat(), b: if ch::any_bool() { Some(any_pat()) } else { None } }
}
/// The set as an iterator that is deliberately *not* `TrustedLen`: `collect()` then allocates the list with
/// spare capacity (std's minimum of 4), so that the pushes of `merge*` / `in_context` do not reallocate.
/// (One `realloc` of a list of patterns costs CBMC ~9M variables / 6 GB; the growth of `Vec` is std's,
/// listed as trusted.)
struct SetIt(Option<Exp>, Option<Exp>);
impl Iterator for SetIt {
    type Item = Exp;
    fn next(&mut self) -> Option<Exp> {
        match self.0.take() {
            Some(x) => Some(x),
            None => self.1.take(),
        }
    }
}
macro_rules! with_set {
    ($s:expr, |$it:ident| $e:expr) => {{
        let $it = SetIt(Some(exp_of($s.a)), $s.b.map(exp_of));
        $e
    }};
}
impl Set {
    fn has(&self, r: &RichPattern<'static, u8>) -> bool {
        is_pat(r, self.a) || self.b.map(|b| is_pat(r, b)).unwrap_or(false)
    }
}
const CAP: usize = 4;
/// The expected list of a `Rich` error (None for a custom reason), read through the public accessors.
fn expected_of(e: &R) -> Option<&[RichPattern<'static, u8>]> {
    match e.reason() {
        RichReason::ExpectedFound { expected, .. } => Some(&expected[..]),
        RichReason::Custom(_) => None,
    }
}
fn lists(e: &R, p: P) -> bool {
    match expected_of(e) {
        Some(x) => {
            let mut hit = false;
            unroll!(k in [0, 1, 2, 3] {
                if k < x.len() && is_pat(&x[k], p) {
                    hit = true;
                }
            });
            hit
        }
        None => false,
    }
}
fn lists_all(e: &R, s: &Set) -> bool {
    lists(e, s.a) && s.b.map(|b| lists(e, b)).unwrap_or(true)
}
/// every listed pattern comes from one of the two sets
fn lists_only(e: &R, s: &Set, t: Option<&Set>) -> bool {
    match expected_of(e) {
        Some(x) => {
            let mut ok = x.len() <= CAP;
            unroll!(k in [0, 1, 2, 3] {
                if k < x.len() && !(s.has(&x[k]) || t.map(|t| t.has(&x[k])).unwrap_or(false)) {
                    ok = false;
                }
            });
            ok
        }
        None => false,
    }
}
fn is_custom(e: &R) -> bool {
    matches!(e.reason(), RichReason::Custom(_))
}
fn mk_rich(s: Set, f: Option<u8>, sp: Sp) -> R {
    with_set!(s, |it| <R as LabelError<'static, In, Exp>>::expected_found(it, mr(f), sp))
}
fn mk_custom(sp: Sp) -> R {
    Rich::custom(sp, alloc::string::String::new())
}

// ---------------------------------------------------------------------------------- construction
pub fn h_err_expected_found() {
    let (s, f, sp) = (any_set(), any_found(), any_span());
    let r = mk_rich(s, f, sp);
    vassert!(*r.span() == sp, "C06/rich.expected_found-reports-the-given-span");
    vassert!(r.found().copied() == f, "C06/rich.expected_found-reports-the-given-found-token");
    vassert!(lists_all(&r, &s) && lists_only(&r, &s, None), "C06/rich.expected_found-lists-exactly-the-given-expectations");
    vassert!(r.contexts().next().is_none(), "C17/rich.fresh-error-has-no-context");
    let si = <Simple<'static, u8, Sp> as LabelError<'static, In, Exp>>::expected_found([exp_of(s.a)], mr(f), sp);
    vassert!(*si.span() == sp && si.found().copied() == f, "C06/simple.expected_found-reports-the-given-span-and-found");
    let c = <Cheap<Sp> as LabelError<'static, In, Exp>>::expected_found([exp_of(s.a)], mr(f), sp);
    vassert!(*c.span() == sp, "C06/cheap.expected_found-reports-the-given-span");
    vassert!(*c.span() == *si.span() && *si.span() == *r.span(), "C06/errors.cheap-simple-rich-report-the-same-span");
    vcover!(s.b.is_some() && f.is_none(), "err: two expectations, found end of input");
}

// ------------------------------------------------------------------------- equal position: merge
/// `merge` (used by add_alt_err) and `merge_expected_found` (used by add_alt) of two failures at the same
/// position. `VIA`: 0 = merge, 1 = merge_expected_found.
pub fn h_err_rich_merge<const VIA: usize, const C1: bool, const C2: bool>() {
    let (s1, f1, sp1) = (any_set1(), any_found(), any_span());
    let (s2, f2, sp2) = (any_set1(), any_found(), any_span());
    // one instance per case (which side is a user-supplied error): keeps each solver instance small
    let (c1, c2) = (C1, C2);
    let a = if c1 { mk_custom(sp1) } else { mk_rich(s1, f1, sp1) };
    let m = if VIA == 0 {
        let b = if c2 { mk_custom(sp2) } else { mk_rich(s2, f2, sp2) };
        <R as Error<'static, In>>::merge(a, b)
    } else {
        with_set!(s2, |it| <R as LabelError<'static, In, Exp>>::merge_expected_found(a, it, mr(f2), sp2))
    };
    vassert!(*m.span() == sp1, "C06/rich.merge-keeps-the-span-of-the-pending-error");
    if c1 || c2 {
        vcover!(true, "err: a user-supplied error is involved in the merge");
        vassert!(is_custom(&m), "C06/rich.merge-preserves-a-user-supplied-error");
    } else {
        vcover!(s1.a == s2.a, "err: merge of equal expectations");
        vcover!(s1.a != s2.a, "err: merge of different expectations");
        vassert!(lists_all(&m, &s1) && lists_all(&m, &s2), "C06/rich.merge-lists-the-union-of-both-expected-sets");
        vassert!(lists_only(&m, &s1, Some(&s2)), "C06/rich.merge-lists-nothing-but-the-union");
        let mf = m.found().copied();
        vassert!(mf == f1 || mf == f2, "C06/rich.merge-found-is-one-of-the-two-found-tokens");
        if f1 == f2 {
            vassert!(mf == f1, "C06/rich.merge-keeps-the-found-token");
        }
    }
}

// ---------------------------------------------------------------------- further position: replace
pub fn h_err_rich_replace<const CTX: bool>() {
    let (s1, f1, sp1) = (any_set1(), any_found(), any_span());
    let (s2, f2, sp2) = (any_set1(), any_found(), any_span());
    // (the context variant fixes the earlier error to a built-in one: keeps the instance within memory)
    let c1 = !CTX && ch::any_bool();
    let mut a = if c1 { mk_custom(sp1) } else { mk_rich(s1, f1, sp1) };
    if CTX {
        <R as LabelError<'static, In, Exp>>::in_context(&mut a, exp_of(any_pat()), any_span());
    }
    let r = with_set!(s2, |it| <R as LabelError<'static, In, Exp>>::replace_expected_found(a, it, mr(f2), sp2));
    if !CTX {
        vcover!(c1, "err: user error replaced by a further built-in failure");
    }
    vcover!(!c1, "err: built-in failure replaced by a further one");
    vassert!(*r.span() == sp2, "C06/rich.replace-reports-the-span-of-the-further-failure");
    vassert!(!is_custom(&r), "C06/rich.replace-describes-the-further-failure-not-the-earlier-one");
    vassert!(r.found().copied() == f2, "C06/rich.replace-reports-the-found-token-of-the-further-failure");
    vassert!(lists_all(&r, &s2) && lists_only(&r, &s2, None), "C06/rich.replace-lists-exactly-the-expectations-of-the-further-failure");
    vassert!(r.contexts().next().is_none(), "C17/rich.replace-drops-the-context-of-the-earlier-failure");
}

// ---------------------------------------------------------------------------- Simple / Cheap / Empty
pub fn h_err_plain() {
    let (s1, f1, sp1) = (any_set1(), any_found(), any_span());
    let (s2, f2, sp2) = (any_set1(), any_found(), any_span());
    type S = Simple<'static, u8, Sp>;
    type C = Cheap<Sp>;
    let a = <S as LabelError<'static, In, Exp>>::expected_found([exp_of(s1.a)], mr(f1), sp1);
    let b = <S as LabelError<'static, In, Exp>>::expected_found([exp_of(s2.a)], mr(f2), sp2);
    let m = <S as Error<'static, In>>::merge(a, b);
    vassert!(*m.span() == sp1 && m.found().copied() == f1, "C06/simple.merge-keeps-the-pending-error");
    let m2 = <S as LabelError<'static, In, Exp>>::merge_expected_found(a, [exp_of(s2.a)], mr(f2), sp2);
    vassert!(*m2.span() == sp1 && m2.found().copied() == f1, "C06/simple.merge_expected_found-keeps-the-pending-error");
    let r = <S as LabelError<'static, In, Exp>>::replace_expected_found(a, [exp_of(s2.a)], mr(f2), sp2);
    vassert!(*r.span() == sp2 && r.found().copied() == f2, "C06/simple.replace-reports-the-further-failure");
    let ca = <C as LabelError<'static, In, Exp>>::expected_found([exp_of(s1.a)], mr(f1), sp1);
    let cb = <C as LabelError<'static, In, Exp>>::expected_found([exp_of(s2.a)], mr(f2), sp2);
    let cm = <C as Error<'static, In>>::merge(ca, cb);
    let cm2 = <C as LabelError<'static, In, Exp>>::merge_expected_found(ca, [exp_of(s2.a)], mr(f2), sp2);
    let cr = <C as LabelError<'static, In, Exp>>::replace_expected_found(ca, [exp_of(s2.a)], mr(f2), sp2);
    vassert!(*cm.span() == sp1 && *cm2.span() == sp1, "C06/cheap.merge-keeps-the-pending-span");
    vassert!(*cr.span() == sp2, "C06/cheap.replace-reports-the-further-span");
    // the same three operations on Rich give the same spans
    let ra = mk_rich(s1, f1, sp1);
    let rm = with_set!(s2, |it| <R as LabelError<'static, In, Exp>>::merge_expected_found(ra, it, mr(f2), sp2));
    let rr = with_set!(s2, |it| <R as LabelError<'static, In, Exp>>::replace_expected_found(mk_rich(s1, f1, sp1), it, mr(f2), sp2));
    vassert!(*rm.span() == *m2.span() && *rm.span() == *cm2.span(), "C06/errors.same-span-after-an-equal-position-merge");
    vassert!(*rr.span() == *r.span() && *rr.span() == *cr.span(), "C06/errors.same-span-after-a-further-failure");
    // decorations do not exist for these types: labelling never changes span or found
    let mut l = a;
    <S as LabelError<'static, In, Exp>>::label_with(&mut l, exp_of(any_pat()));
    <S as LabelError<'static, In, Exp>>::in_context(&mut l, exp_of(any_pat()), any_span());
    vassert!(l == a, "C17/simple.labels-change-nothing");
    let e1 = <EmptyErr as LabelError<'static, In, Exp>>::expected_found([exp_of(s1.a)], mr(f1), sp1);
    let e2 = <EmptyErr as LabelError<'static, In, Exp>>::replace_expected_found(e1, [exp_of(s2.a)], mr(f2), sp2);
    vassert!(<EmptyErr as Error<'static, In>>::merge(e1, e2) == EmptyErr::default(), "C06/empty.all-errors-are-equal");
    vcover!(true, "err: plain error types exercised");
}

// ----------------------------------------------------------------------------------- decorations
pub fn h_err_rich_label() {
    let (s1, f1, sp1) = (any_set(), any_found(), any_span());
    let c1 = ch::any_bool();
    let mut a = if c1 { mk_custom(sp1) } else { mk_rich(s1, f1, sp1) };
    let l = any_pat();
    <R as LabelError<'static, In, Exp>>::label_with(&mut a, exp_of(l));
    vcover!(c1, "err: user error labelled");
    vcover!(!c1 && s1.b.is_some(), "err: two expectations replaced by the label");
    vassert!(*a.span() == sp1, "C17/rich.label_with-keeps-the-span");
    let only = Set { a: l, b: None };
    vassert!(lists(&a, l) && lists_only(&a, &only, None) && expected_of(&a).map(|x| x.len()) == Some(1), "C17/rich.label_with-lists-the-label-in-place-of-the-expectations");
    if !c1 {
        vassert!(a.found().copied() == f1, "C17/rich.label_with-keeps-the-found-token");
    }
    vassert!(a.contexts().next().is_none(), "C17/rich.label_with-adds-no-context");
}
/// contexts: (label, span) appended once per distinct label, innermost first
pub fn h_err_rich_context() {
    let (s1, f1, sp1) = (any_set1(), any_found(), any_span());
    let mut a = mk_rich(s1, f1, sp1);
    let (l2, csp) = (any_pat(), any_span());
    <R as LabelError<'static, In, Exp>>::in_context(&mut a, exp_of(l2), csp);
    {
        let mut it = a.contexts();
        let first = it.next();
        vassert!(first.map(|(p, s)| is_pat(p, l2) && *s == csp).unwrap_or(false) && it.next().is_none(), "C17/rich.in_context-adds-label-and-span");
    }
    let (l3, csp3) = (any_pat(), any_span());
    <R as LabelError<'static, In, Exp>>::in_context(&mut a, exp_of(l3), csp3);
    {
        let n = a.contexts().count();
        vcover!(l3 == l2, "err: same context label twice");
        vcover!(l3 != l2, "err: two different context labels");
        vassert!(n == if l3 == l2 { 1 } else { 2 }, "C17/rich.in_context-lists-each-label-once-innermost-first");
        let mut it = a.contexts();
        let first = it.next();
        vassert!(first.map(|(p, s)| is_pat(p, l2) && *s == csp).unwrap_or(false), "C17/rich.in_context-keeps-earlier-contexts");
    }
    vassert!(*a.span() == sp1 && lists(&a, s1.a) && a.found().copied() == f1, "C17/rich.in_context-changes-neither-span-nor-expectations-nor-found");
}

harnesses! {
    #[kani::unwind(4)]
    err_expected_found_b2 = h_err_expected_found;
    // `Rich::merge` itself (VIA = 0: h_err_rich_merge::<0, _, _>, the path of add_alt_err) exhausts the solver's
    // memory in every case split tried (> 16-24 GB, incl. Custom+Custom): not under contract, see DESIGN 9.6.
    #[kani::unwind(4)]
    err_rich_merge_expected_found_sets_b1 = h_err_rich_merge::<1, false, false>;
    #[kani::unwind(4)]
    err_rich_merge_expected_found_custom_b1 = h_err_rich_merge::<1, true, false>;
    #[kani::unwind(4)]
    err_rich_replace_b1 = h_err_rich_replace::<false>;
    #[kani::unwind(4)]
    err_rich_replace_ctx_b1 = h_err_rich_replace::<true>;
    #[kani::unwind(4)]
    err_plain_b1 = h_err_plain;
    #[kani::unwind(4)]
    err_rich_label_b2 = h_err_rich_label;
    #[kani::unwind(4)]
    err_rich_context_b2 = h_err_rich_context;
}



