// @config debug_assertions=off
// C19: every value produced by user mappers is handed to the caller or dropped exactly once. Safe Rust
// guarantees this except at the unsafe sites (array `group`, `collect_exactly` into arrays / boxes),
// which get contracts here with a drop-tracking output type. Const-generic lengths: N = 2 and N = 3.

use super::fw::*;
use crate::prelude::*;
use crate::private::{Check, Emit, Mode};
use crate::{IterParser, Parser};

/// Ghost ledger living in the harness frame; values point at it.
pub struct Track {
    pub created: [u8; 4],
    pub dropped: [u8; 4],
    pub next: usize,
}
impl Track {
    pub fn new() -> Track {
        Track { created: [0; 4], dropped: [0; 4], next: 0 }
    }
}
pub struct D {
    tr: *mut Track,
    id: usize,
}
impl D {
    fn make(tr: *mut Track) -> D {
        unsafe {
            let id = (*tr).next;
            (*tr).next = id + 1;
            if id < 4 {
                (*tr).created[id] = (*tr).created[id].wrapping_add(1);
            }
            D { tr, id }
        }
    }
}
impl Drop for D {
    fn drop(&mut self) {
        unsafe {
            if self.id < 4 {
                (*self.tr).dropped[self.id] = (*self.tr).dropped[self.id].wrapping_add(1);
            }
        }
    }
}
/// every created value has been dropped exactly once
fn all_dropped_once(t: &Track) -> bool {
    let mut ok = true;
    unroll!(k in [0, 1, 2, 3] {
        if t.dropped[k] != t.created[k] || t.created[k] > 1 {
            ok = false;
        }
    });
    ok
}
/// no created value has been dropped yet
fn none_dropped(t: &Track) -> bool {
    let mut ok = true;
    unroll!(k in [0, 1, 2, 3] {
        if t.dropped[k] != 0 {
            ok = false;
        }
    });
    ok
}

fn tracked(slot: usize, tr: *mut Track) -> impl Parser<'static, SymIn<u8>, D, X<VS>> + Clone {
    anyp::<SymIn<u8>, X<VS>>(slot).map(move |_o: u16| D::make(tr))
}
/// the same parser value invoked repeatedly (array `group` needs one element type): call k -> slot k
fn tracked_multi(n: usize, tr: *mut Track) -> impl Parser<'static, SymIn<u8>, D, X<VS>> + Clone {
    anyp_multi::<SymIn<u8>, X<VS>>(0, n).map(move |_o: u16| D::make(tr))
}

macro_rules! group_array_harness {
    ($name:ident, $n:literal, [$($k:literal),*]) => {
        pub fn $name<M: VMode>() {
            run::<u8, VS, (), _>(|inp, s0| {
                let mut t = Track::new();
                let tr: *mut Track = &mut t;
                let p = tracked_multi($n, tr);
                let r = group([$({ let _ = $k; p.clone() }),*]).gov::<M>(inp);
                let s = snap(inp);
                let mut all_ok = true;
                let mut made = 0usize;
                $( { let l = lg(inp, $k); if all_ok { if l.ok { made += 1; } else { all_ok = false; } } } )*
                vassert!(r.is_ok() == all_ok, "C01/group_array.succeeds-iff-every-element-succeeds");
                let created = unsafe { (*tr).next };
                vassert!(created == if M::EMIT { made } else { 0 }, "C19/group_array.values-are-built-only-when-output-is-built");
                match r {
                    Ok(arr) => {
                        vcover!(true, "group array: all succeed");
                        vassert!(none_dropped(unsafe { &*tr }), "C19/group_array.success-hands-every-value-to-the-caller-undropped");
                        drop(arr);
                        vassert!(all_dropped_once(unsafe { &*tr }), "C19/group_array.returned-values-are-dropped-once-by-the-caller");
                    }
                    Err(()) => {
                        vcover!(made >= 1, "group array: fails after producing values");
                        vassert!(all_dropped_once(unsafe { &*tr }), "C19/group_array.failure-drops-every-produced-value-exactly-once");
                        vassert!(s.alt.is_some(), "C20/group_array.failure-leaves-pending-error");
                    }
                }
                let _ = s0;
            });
        }
    };
}
/// A zero-sized output type with drop glue (a guard / permit / token): its ledger is a pair of global
/// counters, since the value itself has no room for a pointer. (The unsafe sites branch on sizes, and a
/// zero-sized output is exactly what Check mode produces for every type.)
pub struct DZ;
static Z_CREATED: core::sync::atomic::AtomicUsize = core::sync::atomic::AtomicUsize::new(0);
static Z_DROPPED: core::sync::atomic::AtomicUsize = core::sync::atomic::AtomicUsize::new(0);
impl DZ {
    fn make() -> DZ {
        Z_CREATED.fetch_add(1, core::sync::atomic::Ordering::SeqCst);
        DZ
    }
}
impl Drop for DZ {
    fn drop(&mut self) {
        Z_DROPPED.fetch_add(1, core::sync::atomic::Ordering::SeqCst);
    }
}
fn z_counts() -> (usize, usize) {
    (Z_CREATED.load(core::sync::atomic::Ordering::SeqCst), Z_DROPPED.load(core::sync::atomic::Ordering::SeqCst))
}
/// group([p; 2]) and collect_exactly::<[_; 2]> producing zero-sized values with drop glue.
pub fn h_zst_outputs<M: VMode, const COLLECT: bool>() {
    run::<u8, VS, (), _>(|inp, _s0| {
        Z_CREATED.store(0, core::sync::atomic::Ordering::SeqCst);
        Z_DROPPED.store(0, core::sync::atomic::Ordering::SeqCst);
        let r: Result<M::Output<[DZ; 2]>, ()> = if COLLECT {
            let it = crate::combinator::Map {
                parser: anyit::<SymIn<u8>, X<VS>>(0, 3),
                mapper: move |_o: u16| DZ::make(),
                phantom: crate::EmptyPhantom::<u16>::new(),
            };
            it.collect_exactly::<[DZ; 2]>().gov::<M>(inp)
        } else {
            let p = anyp_multi::<SymIn<u8>, X<VS>>(0, 2).map(move |_o: u16| DZ::make());
            group([p.clone(), p.clone()]).gov::<M>(inp)
        };
        let (created, dropped) = z_counts();
        match r {
            Ok(arr) => {
                vcover!(true, "zero-sized outputs: all produced");
                vassert!(created == if M::EMIT { 2 } else { 0 }, "C19/zst_outputs.values-are-built-only-when-output-is-built");
                vassert!(dropped == 0, "C19/zst_outputs.success-hands-every-value-to-the-caller-undropped");
                drop(arr);
                let (c2, d2) = z_counts();
                vassert!(c2 == created && d2 == created, "C19/zst_outputs.returned-values-are-dropped-once-by-the-caller");
            }
            Err(()) => {
                vcover!(created >= 1, "zero-sized outputs: fails after producing values");
                vassert!(dropped == created, "C19/zst_outputs.failure-drops-every-produced-value-exactly-once");
            }
        }
    });
}

group_array_harness!(h_group_array2, 2, [0, 1]);
group_array_harness!(h_group_array3, 3, [0, 1, 2]);

/// collect_exactly into `[D; N]` or `Box<[D; N]>` from an iterator stub that yields up to N items.
macro_rules! collect_exactly_harness {
    ($name:ident, $n:literal, $ty:ty) => {
        pub fn $name<M: VMode>() {
            run::<u8, VS, (), _>(|inp, s0| {
                let mut t = Track::new();
                let tr: *mut Track = &mut t;
                let it = crate::combinator::Map {
                    parser: anyit::<SymIn<u8>, X<VS>>(0, $n + 1),
                    mapper: move |_o: u16| D::make(tr),
                    phantom: crate::EmptyPhantom::<u16>::new(),
                };
                let r = it.collect_exactly::<$ty>().gov::<M>(inp);
                let s = snap(inp);
                // items yielded before the iteration ended (at most N are requested)
                let mut yielded = 0usize;
                let mut live = true;
                let mut k = 0;
                while k < $n {
                    let l = lg(inp, k);
                    if live && l.called && l.kind == 0 {
                        yielded += 1;
                    } else {
                        live = false;
                    }
                    k += 1;
                }
                vassert!(r.is_ok() == (yielded == $n), "C02/collect_exactly.succeeds-iff-exactly-the-required-number-of-items");
                vassert!(!lg(inp, $n).called, "C02/collect_exactly.asks-for-no-more-than-the-required-number-of-items");
                let created = unsafe { (*tr).next };
                vassert!(created == if M::EMIT { yielded } else { 0 }, "C19/collect_exactly.values-are-built-only-when-output-is-built");
                match r {
                    Ok(c) => {
                        vcover!(true, "collect_exactly: filled");
                        vassert!(none_dropped(unsafe { &*tr }), "C19/collect_exactly.success-hands-every-value-to-the-caller-undropped");
                        drop(c);
                        vassert!(all_dropped_once(unsafe { &*tr }), "C19/collect_exactly.returned-values-are-dropped-once-by-the-caller");
                    }
                    Err(()) => {
                        vcover!(yielded >= 1, "collect_exactly: too few items after some");
                        vassert!(all_dropped_once(unsafe { &*tr }), "C19/collect_exactly.failure-drops-the-initialised-prefix-exactly-once");
                        // the iteration may end early without the inner parser having recorded why (at its cap)
                        vassert_finding!(s.alt.is_some(), "C20/collect_exactly.failure-leaves-pending-error");
                    }
                }
                let _ = s0;
            });
        }
    };
}
collect_exactly_harness!(h_collect_exactly2, 2, [D; 2]);
collect_exactly_harness!(h_collect_exactly3, 3, [D; 3]);
collect_exactly_harness!(h_collect_exactly_box2, 2, Box<[D; 2]>);

harnesses! {
    #[kani::unwind(5)]
    group_array2_emit = h_group_array2::<Emit>;
    #[kani::unwind(5)]
    group_array2_check = h_group_array2::<Check>;
    #[kani::unwind(5)]
    group_array3_emit_t = h_group_array3::<Emit>;
    #[kani::unwind(5)]
    group_array2_zst_emit = h_zst_outputs::<Emit, false>;
    #[kani::unwind(5)]
    collect_exactly2_zst_emit = h_zst_outputs::<Emit, true>;
    #[kani::unwind(5)]
    collect_exactly2_emit = h_collect_exactly2::<Emit>;
    #[kani::unwind(5)]
    collect_exactly2_check = h_collect_exactly2::<Check>;
    #[kani::unwind(5)]
    collect_exactly3_emit_t = h_collect_exactly3::<Emit>;
    #[kani::unwind(5)]
    collect_exactly_box2_emit = h_collect_exactly_box2::<Emit>;
}
