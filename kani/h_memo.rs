// @config features=memoization
// C11: contract of `Memoized::go` (src/combinator.rs), proved for the real body with a contract stub as
// the memoized parser, from a symbolic entry state and a symbolic state of the memo table. The table is
// the assumed finite-map contract of hashmodel.rs under Kani and the real hashbrown natively.
//
// From the property: wrapping a parser in memoized() changes neither acceptance, output nor the errors
// reported, however the memoized parsers are nested, cloned or zero-sized; a re-entered memoized parser
// (left recursion) fails at once instead of recursing.

use super::fw::*;
use super::h_comb::VEr;
use crate::combinator::Memoized;
use crate::input::{Input, InputRef};
use crate::prelude::*;
use crate::private::{Check, Emit, Located, Mode, PResult};
use crate::Parser;

type I8 = SymIn<u8>;

// None of the obligations below depends on HOW the library identifies a memoized parser (today: the address
// of the wrapped parser): the table is observed through the library's own behaviour (re-entering the parser,
// trying it again) and through the number of bindings, never by recomputing a key. A different identity scheme
// that keeps the property keeps these proofs.

const FAR: (usize, usize) = (usize::MAX, usize::MAX - 7);

/// The memoized parser of the re-entry harness: on its first invocation it re-enters the memoized parser it
/// is wrapped in, at the same position (what a left-recursive grammar does), records (ghost) what that
/// re-entry did, and then behaves as a contract stub.
pub struct Reenter<Er: 'static> {
    pub inner: AnyP<I8, X<Er>>,
    pub outer: *const Memoized<Reenter<Er>>,
}
impl<Er: VEr> Parser<'static, I8, u16, X<Er>> for Reenter<Er> {
    fn go<M: Mode>(&self, inp: &mut InputRef<'static, '_, I8, X<Er>>) -> PResult<M, u16> {
        if inp.state.reg[0] == 0 && !self.outer.is_null() {
            inp.state.reg[0] = 1; // re-enter once only
            let (pos0, sec0, calls0) = (inp.cursor, inp.errors.secondary.len(), inp.state.log[self.inner.slot].calls);
            inp.errors.alt = None; // so that what the re-entry leaves pending is its own
            // SAFETY (harness): points at the memoized parser in the harness frame, which outlives the parse
            let r = unsafe { (*self.outer).go::<M>(inp) };
            let st = &mut inp.state;
            st.reg[1] = if r.is_err() { 1 } else { 2 };
            st.reg[2] = if inp.cursor == pos0 && inp.errors.secondary.len() == sec0 { 1 } else { 2 };
            st.reg[3] = if st.log[self.inner.slot].calls == calls0 && st.reg[0] == 1 { 1 } else { 2 };
            st.reg[4] = if inp.errors.alt.is_some() { 1 } else { 2 };
            st.reg[5] = match &inp.errors.alt {
                Some(a) if a.pos >= pos0 => 1,
                _ => 2,
            };
            inp.errors.alt = None;
            inp.cursor = pos0;
        }
        self.inner.go::<M>(inp)
    }
    fn go_emit(&self, inp: &mut InputRef<'static, '_, I8, X<Er>>) -> PResult<Emit, u16> {
        self.go::<Emit>(inp)
    }
    fn go_check(&self, inp: &mut InputRef<'static, '_, I8, X<Er>>) -> PResult<Check, u16> {
        self.go::<Check>(inp)
    }
}

/// A memoized parser tried at a position for the first time: it IS its parser; the table gains one binding
/// iff the attempt failed (the recorded failure), none otherwise; bindings of others are untouched.
pub fn h_memoized_first<M: VMode, Er: VEr>() {
    run::<u8, Er, (), _>(|inp, s0| {
        let p = anyp::<I8, X<Er>>(0).memoized();
        let had_other = ch::any_bool();
        if had_other {
            inp.memos.insert(FAR, None);
        }
        let n0 = inp.memos.len();
        let r = p.gov::<M>(inp);
        let s = snap(inp);
        let a = lg(inp, 0);
        let n1 = inp.memos.len();
        vassert!(a.called && a.calls == 1 && a.entry_pos == s0.pos && a.entry_sec == s0.nsec && a.entry_believed == s0.pos,
            "C11/memoized.first-attempt-runs-the-parser-once-from-the-caller-state");
        vassert!(r.is_ok() == a.ok, "C11/memoized.same-acceptance-as-the-parser");
        if a.ok {
            vcover!(true, "memoized: first attempt succeeds");
            vassert!(ok_with::<M, _>(&r, a.out), "C11/memoized.same-output-as-the-parser");
            vassert!(s.pos == a.exit_pos, "C11/memoized.same-consumption-as-the-parser");
            vassert!(s.believed == s.pos, "C18/memoized.inspector-at-position-after-success");
            vassert!(SecSpec::pre(&s0).child(0, &a).holds(&s, Er::ZST), "C05/memoized.kept-emissions-exact");
            vassert!(n1 == n0, "C11/memoized.success-leaves-no-binding-behind");
        } else {
            vcover!(true, "memoized: first attempt fails");
            vassert!(SecSpec::pre(&s0).prefix_of(&s, Er::ZST), "C05/memoized.failure-keeps-earlier-emissions");
            vassert!(s.alt.is_some(), "C20/memoized.failure-leaves-pending-error");
            vassert!(n1 == n0 + 1, "C11/memoized.failure-is-recorded-for-later-attempts");
        }
        if !Er::ZST {
            vassert!(Offers::of(&s0, &[&a]).matches(&s), "C11/memoized.same-pending-error-as-the-parser");
        }
        vassert!(inp.memos.get(&FAR).is_some() == had_other, "C11/memoized.other-bindings-untouched");
    });
}

/// Re-entry while the same memoized parser is still running at the same position (the left-recursive
/// step): it fails at once - nothing consumed, nothing emitted, a pending error not before the attempt - without
/// running the parser again; the outer attempt then goes on as if nothing had happened.
pub fn h_memoized_reentry<M: VMode, Er: VEr>() {
    run::<u8, Er, (), _>(|inp, s0| {
        let mut p: Memoized<Reenter<Er>> = Reenter { inner: anyp::<I8, X<Er>>(0), outer: core::ptr::null() }.memoized();
        let pp: *const Memoized<Reenter<Er>> = &p;
        p.parser.outer = pp;
        let alt0 = inp.errors.alt.take(); // (the probe isolates the re-entry's own pending error)
        let _ = alt0;
        let r = p.gov::<M>(inp);
        let s = snap(inp);
        let a = lg(inp, 0);
        let st = &inp.state;
        vcover!(st.reg[0] == 1, "memoized: re-entered while in progress");
        vassert!(st.reg[0] == 1 && st.reg[1] == 1, "C11/memoized.reentry-fails");
        vassert!(st.reg[3] == 1, "C11/memoized.reentry-does-not-run-the-parser-again");
        vassert!(st.reg[2] == 1, "C05/memoized.reentry-consumes-and-emits-nothing");
        vassert!(st.reg[4] == 1, "C20/memoized.reentry-leaves-pending-error");
        if !Er::ZST {
            vassert!(st.reg[5] == 1, "C06/memoized.reentry-failure-not-before-the-attempt");
        }
        // the outer attempt is the parser's, as in a first attempt
        vassert!(a.called && a.calls == 1 && a.entry_pos == s0.pos, "C11/memoized.outer-attempt-goes-on-after-the-reentry");
        vassert!(r.is_ok() == a.ok && (!a.ok || (ok_with::<M, _>(&r, a.out) && s.pos == a.exit_pos)), "C11/memoized.outer-attempt-has-the-parsers-outcome");
    });
}

/// A later attempt at a position where this parser already failed - after the parse went on elsewhere and
/// left some other error (or none) pending: the recorded failure is replayed without running the parser
/// again, as re-running a parser that fails the same way would report it - at its recorded position, merged
/// with what is pending there.
pub fn h_memoized_replay<M: VMode, Er: VEr>() {
    run::<u8, Er, (), _>(|inp, s0| {
        let m = anyp_multi::<I8, X<Er>>(0, 2).memoized();
        let r1 = m.gov::<M>(inp);
        let a = lg(inp, 0);
        if r1.is_ok() || a.ok {
            return;
        }
        let s1 = snap(inp);
        let (p_star, id_star) = match s1.alt {
            Some(x) => x,
            None => return, // (C20/memoized.failure-leaves-pending-error is the first-attempt harness's)
        };
        // the parse goes on elsewhere: what is pending when this position is tried again is arbitrary
        let other = ch::any_bool();
        let q = ch::below(s0.len);
        inp.errors.alt = if other { Some(Located::at(q, Er::mk(88, q, q))) } else { None };
        inp.cursor = s0.pos;
        inp.state.believed = s0.pos;
        let nsec1 = inp.errors.secondary.len();
        let r2 = m.gov::<M>(inp);
        let s2 = snap(inp);
        vcover!(other && q == p_star, "memoized: replay meets another failure at exactly the recorded position");
        vcover!(!other, "memoized: replay with nothing pending");
        vassert!(!lg(inp, 1).called && lg(inp, 0).calls == 1, "C11/memoized.recorded-outcome-is-not-recomputed");
        vassert!(r2.is_err(), "C11/memoized.recorded-failure-fails-again");
        vassert!(s2.nsec == nsec1, "C05/memoized.replayed-failure-emits-nothing");
        vassert!(s2.alt.is_some(), "C20/memoized.replayed-failure-leaves-pending-error");
        if !Er::ZST {
            // the recorded error is what the first attempt left pending: the furthest of (pending at entry, the
            // parser's offer), merged where equal; the replay offers it again
            let _ = (p_star, id_star);
            let exp = if other { Offers::of(&s0, &[&a]).at(q, 88) } else { Offers::of(&s0, &[&a]) };
            vassert!(exp.matches(&s2), "C11/memoized.recorded-failure-replayed-at-its-position-and-merged-with-what-is-pending-there");
        }
    });
}

/// Zero-sized memoized parsers: contract stubs without fields (the slot is a const parameter), so that
/// two different memoized parsers can live at one address, as the alternatives of a `choice` /`or` do.
#[derive(Clone, Copy)]
pub struct ZP<Er: 'static, const SLOT: usize>(core::marker::PhantomData<fn(Er)>);
impl<Er: VEr, const SLOT: usize> Parser<'static, I8, u16, X<Er>> for ZP<Er, SLOT> {
    fn go<M: Mode>(&self, inp: &mut InputRef<'static, '_, I8, X<Er>>) -> PResult<M, u16> {
        anyp::<I8, X<Er>>(SLOT).go::<M>(inp)
    }
    fn go_emit(&self, inp: &mut InputRef<'static, '_, I8, X<Er>>) -> PResult<Emit, u16> {
        self.go::<Emit>(inp)
    }
    fn go_check(&self, inp: &mut InputRef<'static, '_, I8, X<Er>>) -> PResult<Check, u16> {
        self.go::<Check>(inp)
    }
}
/// `a.memoized().or(b.memoized())` against the contract of `a.or(b)` (h_comb::h_or), with `a`, `b`
/// zero-sized (ZS = true) or not.
/// memoized() applied by one shared helper to different parsers ("one `.memoized()` in the source" is not
/// "one parser"): the two results are different memoized parsers.
fn memo_helper<P: Parser<'static, I8, u16, X<Er>>, Er: VEr>(p: P) -> Memoized<P> {
    p.memoized()
}
pub fn h_memoized_or<M: VMode, Er: VEr, const ZS: bool>() {
    h_memoized_or_k::<M, Er, ZS, false>()
}
pub fn h_memoized_or_k<M: VMode, Er: VEr, const ZS: bool, const HELPER: bool>() {
    run::<u8, Er, (), _>(|inp, s0| {
        let r = if HELPER {
            memo_helper::<_, Er>(anyp::<I8, X<Er>>(0)).or(memo_helper::<_, Er>(anyp::<I8, X<Er>>(1))).gov::<M>(inp)
        } else if ZS {
            let p = ZP::<Er, 0>(core::marker::PhantomData).memoized().or(ZP::<Er, 1>(core::marker::PhantomData).memoized());
            vassert!(core::mem::size_of::<ZP<Er, 0>>() == 0 && core::mem::size_of::<ZP<Er, 1>>() == 0, "FW/memoized-or-inner-parsers-are-zero-sized");
            p.gov::<M>(inp)
        } else {
            anyp::<I8, X<Er>>(0).memoized().or(anyp::<I8, X<Er>>(1).memoized()).gov::<M>(inp)
        };
        let s = snap(inp);
        let (a, b) = (lg(inp, 0), lg(inp, 1));
        vassert!(a.called && a.calls == 1 && a.entry_pos == s0.pos, "C11/memoized_or.first-alternative-tried-once-from-entry");
        if a.ok {
            vcover!(true, "memoized or: first succeeds");
            vassert!(!b.called && ok_with::<M, _>(&r, a.out) && s.pos == a.exit_pos, "C11/memoized_or.commits-to-first-success");
        } else {
            vassert_finding!(b.called && b.calls == 1, "C11/memoized_or.second-alternative-tried-after-first-fails");
            vassert!(b.entry_pos == s0.pos && b.entry_sec == s0.nsec, "C11/memoized_or.second-alternative-starts-from-entry-state");
            vassert!(r.is_ok() == b.ok, "C11/memoized_or.same-acceptance-as-unmemoized-choice");
            if b.ok {
                vcover!(true, "memoized or: second succeeds");
                vassert!(ok_with::<M, _>(&r, b.out) && s.pos == b.exit_pos, "C11/memoized_or.output-and-position-of-second");
            } else {
                vcover!(true, "memoized or: both fail");
                vassert!(s.alt.is_some(), "C20/memoized_or.failure-leaves-pending-error");
            }
        }
        if !Er::ZST {
            vassert!(Offers::of(&s0, &[&a, &b]).matches(&s), "C11/memoized_or.same-pending-error-as-unmemoized-choice");
        }
    });
}

/// The same memoized parser tried twice at one position (`m.or(m)`; through a reference, as shared
/// sub-grammars are): the second attempt replays the first one's failure and reports what re-running
/// the parser would report.
pub fn h_memoized_twice<M: VMode, Er: VEr>() {
    run::<u8, Er, (), _>(|inp, s0| {
        let m = anyp_multi::<I8, X<Er>>(0, 2).memoized();
        let r = (&m).or(&m).gov::<M>(inp);
        let s = snap(inp);
        let (a, b) = (lg(inp, 0), lg(inp, 1));
        vassert!(a.called && a.entry_pos == s0.pos, "C11/memoized_twice.first-attempt-runs-the-parser");
        if a.ok {
            vcover!(true, "memoized twice: succeeds at once");
            vassert!(ok_with::<M, _>(&r, a.out) && s.pos == a.exit_pos && !b.called, "C11/memoized_twice.success-is-the-parsers");
        } else {
            vcover!(true, "memoized twice: fails, then replays");
            vassert!(!b.called, "C11/memoized_twice.failed-attempt-is-not-repeated-at-the-same-position");
            vassert!(r.is_err(), "C11/memoized_twice.fails-as-the-unmemoized-grammar");
            vassert!(s.alt.is_some(), "C20/memoized_twice.failure-leaves-pending-error");
            if !Er::ZST {
                // the unmemoized grammar fails twice in the same way: the pending error is at the furthest
                // of (pending at entry, the parser's offer)
                let exp = Offers::of(&s0, &[&a]).max_pos();
                vassert!(s.alt.map(|x| x.0) == exp, "C11/memoized_twice.pending-error-position-as-unmemoized");
            }
        }
    });
}

harnesses! {
    memoized_first_emit = h_memoized_first::<Emit, VS>;
    memoized_first_check = h_memoized_first::<Check, VS>;
    memoized_first_emit_zst = h_memoized_first::<Emit, VZ>;
    memoized_replay_emit = h_memoized_replay::<Emit, VS>;
    memoized_replay_check = h_memoized_replay::<Check, VS>;
    memoized_reentry_emit = h_memoized_reentry::<Emit, VS>;
    memoized_reentry_check = h_memoized_reentry::<Check, VS>;
    memoized_reentry_emit_zst = h_memoized_reentry::<Emit, VZ>;
    memoized_or_emit = h_memoized_or::<Emit, VS, false>;
    memoized_or_check = h_memoized_or::<Check, VS, false>;
    memoized_or_zero_sized_emit = h_memoized_or::<Emit, VS, true>;
    memoized_or_zero_sized_check = h_memoized_or::<Check, VS, true>;
    memoized_or_shared_helper_emit = h_memoized_or_k::<Emit, VS, false, true>;
    memoized_twice_emit = h_memoized_twice::<Emit, VS>;
    memoized_twice_check = h_memoized_twice::<Check, VS>;
}
