// @config features=memoization
// C11: contract of `Memoized::go` (src/combinator.rs), proved for the real body with a contract stub as
// the memoized parser, from a symbolic entry state and a symbolic state of the memo table. The table is
// the assumed finite-map contract of hashmodel.rs under Kani and the real hashbrown natively.
//
// From the property: wrapping a parser in memoized() changes neither acceptance, output nor the errors
// reported, however the memoized parsers are nested, cloned or zero-sized; a re-entered memoized parser
// (left recursion) fails at once instead of recursing.

use super::fw::*;
use super::h_comb::VEr;
use crate::combinator::Memoized;
use crate::input::{Input, InputRef};
use crate::prelude::*;
use crate::private::{Check, Emit, Located, Mode, PResult};
use crate::Parser;

type I8 = SymIn<u8>;

/// The memoized parser of the harness: a contract stub that first records (ghost) what the memo table
/// says about this very attempt while it runs.
#[derive(Clone, Copy)]
pub struct Probe<Er: 'static> {
    pub inner: AnyP<I8, X<Er>>,
}
impl<Er: VEr> Parser<'static, I8, u16, X<Er>> for Probe<Er> {
    fn go<M: Mode>(&self, inp: &mut InputRef<'static, '_, I8, X<Er>>) -> PResult<M, u16> {
        let key = (inp.cursor, self as *const _ as *const () as usize);
        inp.state.reg[0] = match inp.memos.get(&key) {
            None => 1,
            Some(None) => 2,
            Some(Some(_)) => 3,
        };
        self.inner.go::<M>(inp)
    }
    fn go_emit(&self, inp: &mut InputRef<'static, '_, I8, X<Er>>) -> PResult<Emit, u16> {
        self.go::<Emit>(inp)
    }
    fn go_check(&self, inp: &mut InputRef<'static, '_, I8, X<Er>>) -> PResult<Check, u16> {
        self.go::<Check>(inp)
    }
}

/// Symbolic pre-state of the memo table and the call under contract. `pre`: what the table says about
/// this (position, parser) at entry: 0 = unbound (first attempt), 1 = bound to the failure recorded by an
/// earlier attempt at this position, 2 = bound to "in progress" (the parser is re-entered: left recursion).
pub struct MemoRun {
    pub s: Snap,
    pub a: CallLog,
    pub r_ok: bool,
    pub out_ok: bool,
    /// binding of the key afterwards: 0 none, 1 in progress, 2 a recorded failure
    pub bound: usize,
    pub stored: Option<(usize, u16)>,
    pub seen_by_parser: usize,
    pub rec_pos: usize,
    pub frame_ok: bool,
}
fn memo_run<M: VMode, Er: VEr>(inp: &mut IR<'_, u8, Er>, s0: &S0, pre: usize) -> MemoRun {
    let p: Memoized<Probe<Er>> = Probe { inner: anyp::<I8, X<Er>>(0) }.memoized();
    let key = (s0.pos, &p.parser as *const _ as *const () as usize);
    // an unrelated binding: the frame of the table
    let other = (ch::any_usize(), ch::any_usize());
    ch::assume(other != key);
    let had_other = ch::any_bool();
    if had_other {
        inp.memos.insert(other, None);
    }
    // the failure an earlier attempt at this position recorded
    let rec_pos = s0.pos + ch::below(s0.len - s0.pos);
    if pre == 1 {
        inp.memos.insert(key, Some(Located::at(rec_pos, Er::mk(77, rec_pos, rec_pos))));
    }
    if pre == 2 {
        inp.memos.insert(key, None);
    }
    let r = p.gov::<M>(inp);
    let s = snap(inp);
    let a = lg(inp, 0);
    let bound = match inp.memos.get(&key) {
        None => 0usize,
        Some(None) => 1,
        Some(Some(_)) => 2,
    };
    let stored = match inp.memos.get(&key) {
        Some(Some(l)) => Some((l.pos, l.err.id())),
        _ => None,
    };
    let frame_ok = if had_other { matches!(inp.memos.get(&other), Some(None)) } else { inp.memos.get(&other).is_none() };
    MemoRun { s, a, r_ok: r.is_ok(), out_ok: ok_with::<M, _>(&r, a.out), bound, stored, seen_by_parser: inp.state.reg[0], rec_pos, frame_ok }
}

/// First attempt at this position: the memoized parser is its parser.
pub fn h_memoized_first<M: VMode, Er: VEr>() {
    run::<u8, Er, (), _>(|inp, s0| {
        let m = memo_run::<M, Er>(inp, &s0, 0);
        let (s, a) = (m.s, m.a);
        vassert!(a.called && a.calls == 1 && a.entry_pos == s0.pos && a.entry_sec == s0.nsec && a.entry_believed == s0.pos,
            "C11/memoized.first-attempt-runs-the-parser-once-from-the-caller-state");
        vassert!(m.seen_by_parser == 2, "C11/memoized.attempt-is-marked-in-progress-while-the-parser-runs");
        vassert!(m.r_ok == a.ok, "C11/memoized.same-acceptance-as-the-parser");
        if a.ok {
            vcover!(true, "memoized: first attempt succeeds");
            vassert!(m.out_ok, "C11/memoized.same-output-as-the-parser");
            vassert!(s.pos == a.exit_pos, "C11/memoized.same-consumption-as-the-parser");
            vassert!(s.believed == s.pos, "C18/memoized.inspector-at-position-after-success");
            vassert!(SecSpec::pre(&s0).child(0, &a).holds(&s, Er::ZST), "C05/memoized.kept-emissions-exact");
            vassert!(m.bound == 0, "C11/memoized.success-leaves-no-binding-behind");
        } else {
            vcover!(true, "memoized: first attempt fails");
            vassert!(SecSpec::pre(&s0).prefix_of(&s, Er::ZST), "C05/memoized.failure-keeps-earlier-emissions");
            vassert!(s.alt.is_some(), "C20/memoized.failure-leaves-pending-error");
            vassert!(m.bound == 2, "C11/memoized.failure-is-recorded-for-later-attempts");
            if !Er::ZST {
                // what the parser's failure left pending: the furthest of (pending at entry, its offer)
                vassert!(Offers::of(&s0, &[&a]).max_pos() == m.stored.map(|x| x.0),
                    "C11/memoized.recorded-failure-is-the-error-pending-after-the-parser-failed");
            }
        }
        if !Er::ZST {
            vassert!(Offers::of(&s0, &[&a]).matches(&s), "C11/memoized.same-pending-error-as-the-parser");
        }
        vassert!(m.frame_ok, "C11/memoized.other-bindings-untouched");
    });
}
/// A later attempt at a position where this parser already failed: the recorded failure is replayed.
pub fn h_memoized_replay<M: VMode, Er: VEr>() {
    run::<u8, Er, (), _>(|inp, s0| {
        let m = memo_run::<M, Er>(inp, &s0, 1);
        let s = m.s;
        vcover!(true, "memoized: recorded failure replayed");
        vcover!(m.rec_pos > s0.pos, "memoized: recorded failure lies beyond the start");
        vassert!(!m.a.called, "C11/memoized.recorded-outcome-is-not-recomputed");
        vassert!(!m.r_ok, "C11/memoized.recorded-failure-fails-again");
        vassert!(s.nsec == s0.nsec, "C05/memoized.replayed-failure-emits-nothing");
        vassert!(s.alt.is_some(), "C20/memoized.replayed-failure-leaves-pending-error");
        vassert!(m.bound == 2, "C11/memoized.record-kept-after-replay");
        if !Er::ZST {
            // re-running the parser would fail where it failed before: the recorded error is offered at
            // its recorded position
            vassert!(Offers::entry(&s0).at(m.rec_pos, 77).matches(&s), "C11/memoized.recorded-failure-replayed-at-its-position");
        }
        vassert!(m.frame_ok, "C11/memoized.replay-leaves-other-bindings-untouched");
    });
}
/// Re-entry while the same parser is still running at the same position (the left-recursive step):
/// fails at once, without running the parser again - the reason left recursion terminates.
pub fn h_memoized_reentry<M: VMode, Er: VEr>() {
    run::<u8, Er, (), _>(|inp, s0| {
        let m = memo_run::<M, Er>(inp, &s0, 2);
        let s = m.s;
        vcover!(true, "memoized: re-entered while in progress");
        vassert!(!m.a.called, "C11/memoized.reentry-does-not-run-the-parser-again");
        vassert!(!m.r_ok, "C11/memoized.reentry-fails");
        vassert!(s.nsec == s0.nsec, "C05/memoized.reentry-emits-nothing");
        vassert!(s.alt.is_some(), "C20/memoized.reentry-leaves-pending-error");
        vassert!(m.bound == 1, "C11/memoized.in-progress-mark-kept-for-the-outer-attempt");
        if let (Some((p, _)), false) = (s.alt, Er::ZST) {
            vassert!(p >= s0.pos || s0.alt.map(|x| x.0 == p).unwrap_or(false), "C06/memoized.reentry-failure-not-before-the-attempt");
        }
        vassert!(m.frame_ok, "C11/memoized.reentry-leaves-other-bindings-untouched");
    });
}

/// Zero-sized memoized parsers: contract stubs without fields (the slot is a const parameter), so that
/// two different memoized parsers can live at one address, as the alternatives of a `choice` /`or` do.
#[derive(Clone, Copy)]
pub struct ZP<Er: 'static, const SLOT: usize>(core::marker::PhantomData<fn(Er)>);
impl<Er: VEr, const SLOT: usize> Parser<'static, I8, u16, X<Er>> for ZP<Er, SLOT> {
    fn go<M: Mode>(&self, inp: &mut InputRef<'static, '_, I8, X<Er>>) -> PResult<M, u16> {
        anyp::<I8, X<Er>>(SLOT).go::<M>(inp)
    }
    fn go_emit(&self, inp: &mut InputRef<'static, '_, I8, X<Er>>) -> PResult<Emit, u16> {
        self.go::<Emit>(inp)
    }
    fn go_check(&self, inp: &mut InputRef<'static, '_, I8, X<Er>>) -> PResult<Check, u16> {
        self.go::<Check>(inp)
    }
}
/// `a.memoized().or(b.memoized())` against the contract of `a.or(b)` (h_comb::h_or), with `a`, `b`
/// zero-sized (ZS = true) or not.
pub fn h_memoized_or<M: VMode, Er: VEr, const ZS: bool>() {
    run::<u8, Er, (), _>(|inp, s0| {
        let r = if ZS {
            let p = ZP::<Er, 0>(core::marker::PhantomData).memoized().or(ZP::<Er, 1>(core::marker::PhantomData).memoized());
            vassert!(core::mem::size_of_val(&p) == 0, "FW/memoized-or-is-zero-sized");
            p.gov::<M>(inp)
        } else {
            anyp::<I8, X<Er>>(0).memoized().or(anyp::<I8, X<Er>>(1).memoized()).gov::<M>(inp)
        };
        let s = snap(inp);
        let (a, b) = (lg(inp, 0), lg(inp, 1));
        vassert!(a.called && a.calls == 1 && a.entry_pos == s0.pos, "C11/memoized_or.first-alternative-tried-once-from-entry");
        if a.ok {
            vcover!(true, "memoized or: first succeeds");
            vassert!(!b.called && ok_with::<M, _>(&r, a.out) && s.pos == a.exit_pos, "C11/memoized_or.commits-to-first-success");
        } else {
            vassert_finding!(b.called && b.calls == 1, "C11/memoized_or.second-alternative-tried-after-first-fails");
            vassert!(b.entry_pos == s0.pos && b.entry_sec == s0.nsec, "C11/memoized_or.second-alternative-starts-from-entry-state");
            vassert!(r.is_ok() == b.ok, "C11/memoized_or.same-acceptance-as-unmemoized-choice");
            if b.ok {
                vcover!(true, "memoized or: second succeeds");
                vassert!(ok_with::<M, _>(&r, b.out) && s.pos == b.exit_pos, "C11/memoized_or.output-and-position-of-second");
            } else {
                vcover!(true, "memoized or: both fail");
                vassert!(s.alt.is_some(), "C20/memoized_or.failure-leaves-pending-error");
            }
        }
        if !Er::ZST {
            vassert!(Offers::of(&s0, &[&a, &b]).matches(&s), "C11/memoized_or.same-pending-error-as-unmemoized-choice");
        }
    });
}

/// The same memoized parser tried twice at one position (`m.or(m)`; through a reference, as shared
/// sub-grammars are): the second attempt replays the first one's failure and reports what re-running
/// the parser would report.
pub fn h_memoized_twice<M: VMode, Er: VEr>() {
    run::<u8, Er, (), _>(|inp, s0| {
        let m = anyp_multi::<I8, X<Er>>(0, 2).memoized();
        let r = (&m).or(&m).gov::<M>(inp);
        let s = snap(inp);
        let (a, b) = (lg(inp, 0), lg(inp, 1));
        vassert!(a.called && a.entry_pos == s0.pos, "C11/memoized_twice.first-attempt-runs-the-parser");
        if a.ok {
            vcover!(true, "memoized twice: succeeds at once");
            vassert!(ok_with::<M, _>(&r, a.out) && s.pos == a.exit_pos && !b.called, "C11/memoized_twice.success-is-the-parsers");
        } else {
            vcover!(true, "memoized twice: fails, then replays");
            vassert!(!b.called, "C11/memoized_twice.failed-attempt-is-not-repeated-at-the-same-position");
            vassert!(r.is_err(), "C11/memoized_twice.fails-as-the-unmemoized-grammar");
            vassert!(s.alt.is_some(), "C20/memoized_twice.failure-leaves-pending-error");
            if !Er::ZST {
                // the unmemoized grammar fails twice in the same way: the pending error is at the furthest
                // of (pending at entry, the parser's offer)
                let exp = Offers::of(&s0, &[&a]).max_pos();
                vassert!(s.alt.map(|x| x.0) == exp, "C11/memoized_twice.pending-error-position-as-unmemoized");
            }
        }
    });
}

harnesses! {
    memoized_first_emit = h_memoized_first::<Emit, VS>;
    memoized_first_check = h_memoized_first::<Check, VS>;
    memoized_first_emit_zst = h_memoized_first::<Emit, VZ>;
    memoized_replay_emit = h_memoized_replay::<Emit, VS>;
    memoized_replay_check = h_memoized_replay::<Check, VS>;
    memoized_reentry_emit = h_memoized_reentry::<Emit, VS>;
    memoized_reentry_check = h_memoized_reentry::<Check, VS>;
    memoized_reentry_emit_zst = h_memoized_reentry::<Emit, VZ>;
    memoized_or_emit = h_memoized_or::<Emit, VS, false>;
    memoized_or_check = h_memoized_or::<Check, VS, false>;
    memoized_or_zero_sized_emit = h_memoized_or::<Emit, VS, true>;
    memoized_or_zero_sized_check = h_memoized_or::<Check, VS, true>;
    memoized_twice_emit = h_memoized_twice::<Emit, VS>;
    memoized_twice_check = h_memoized_twice::<Check, VS>;
}
