// Contracts of Pratt parsing: the operator step functions (`Infix/Prefix/Postfix::do_parse_*`) and the
// tuple / Vec / boxed operator tables are loop-free and proved completely; the `pratt_go` loop is
// checked with bounded stubs (names end in _b<k>).

use super::fw::*;
use super::h_comb::VEr;
use crate::pratt::{infix, left, postfix, prefix, right, Associativity, Operator};
use crate::prelude::*;
use crate::private::{Check, Emit, Mode, PResult};
use crate::input::MapExtra;
use crate::Parser;

/// Binding powers as the statement defines them (independent of the library's encoding functions).
fn powers(is_left: bool, x: u16) -> (u32, u32) {
    let x = x as u32;
    if is_left {
        (2 * x, 2 * x + 1)
    } else {
        (2 * x + 1, 2 * x)
    }
}
fn assoc(is_left: bool, x: u16) -> Associativity {
    if is_left {
        left(x)
    } else {
        right(x)
    }
}
fn out_is<M: VMode>(r: &Result<M::Output<u16>, M::Output<u16>>, ok: bool, v: u16) -> bool {
    match r {
        Ok(o) => ok && M::peek(o).map(|x| x == v).unwrap_or(true),
        Err(o) => !ok && M::peek(o).map(|x| x == v).unwrap_or(true),
    }
}

// slot 0 = operator token parser, slot 1 = operand (the recursive call handed in by the driver)
pub fn h_infix_step<M: VMode, Er: VEr>() {
    run::<u8, Er, (), _>(|inp, s0| {
        let is_left = ch::any_bool();
        let x = ch::any_u16();
        let min_power = ch::any_u32();
        let lhs = ch::any_u16();
        let pre_expr_pos = ch::below(s0.pos);
        let op = infix(assoc(is_left, x), anyp::<SymIn<u8>, X<Er>>(0), |l: u16, o: u16, r: u16, e: &mut MapExtra<'static, '_, SymIn<u8>, X<Er>>| {
            let sp = e.span();
            let st = e.state();
            st.reg[0] = sp.start;
            st.reg[1] = sp.end;
            st.reg[2] = l as usize;
            st.reg[3] = o as usize;
            st.reg[4] = r as usize;
            st.flag[0] = true;
            l.wrapping_mul(31).wrapping_add(o).wrapping_mul(31).wrapping_add(r)
        });
        let operand = anyp::<SymIn<u8>, X<Er>>(1);
        let f = |inp: &mut IR<'_, u8, Er>, mp: u32| -> PResult<M, u16> {
            inp.state.reg[5] = mp as usize;
            operand.gov::<M>(inp)
        };
        let pre_op = inp.save();
        let mut pre_expr = inp.cursor();
        pre_expr.inner = pre_expr_pos;
        let r = op.do_parse_infix::<M>(inp, &pre_expr, &pre_op, M::bind(|| lhs), min_power, &f);
        let s = snap(inp);
        let (o, b) = (lg(inp, 0), lg(inp, 1));
        let (lp, rp) = powers(is_left, x);
        let unchanged = s.pos == s0.pos && s.believed == s.pos && SecSpec::pre(&s0).holds(&s, Er::ZST);
        if lp < min_power {
            vcover!(true, "infix: binds too loosely");
            vassert!(!o.called && !b.called, "C09/infix.not-attempted-when-it-binds-less-tightly-than-required");
            vassert!(out_is::<M>(&r, false, lhs) && unchanged, "C09/infix.unusable-operator-leaves-operand-and-input-untouched");
        } else {
            vassert!(o.called && o.calls == 1 && o.entry_pos == s0.pos && o.entry_sec == s0.nsec, "C09/infix.operator-token-tried-after-the-left-operand");
            if !o.ok {
                vcover!(true, "infix: operator token absent");
                vassert!(!b.called && out_is::<M>(&r, false, lhs) && unchanged, "C09/infix.absent-operator-leaves-operand-and-input-untouched");
            } else {
                vassert!(b.called && b.calls == 1 && b.entry_pos == o.exit_pos && b.entry_sec == s0.nsec + o.emitted, "C09/infix.right-operand-parsed-right-after-the-operator");
                vassert!(inp.state.reg[5] == rp as usize, "C09/infix.right-operand-must-bind-at-least-as-tightly-as-the-right-power");
                if !b.ok {
                    vcover!(true, "infix: right operand missing");
                    vassert!(out_is::<M>(&r, false, lhs) && unchanged, "C09/infix.operator-with-missing-right-operand-is-left-unconsumed");
                } else {
                    vcover!(true, "infix: applied");
                    let want = lhs.wrapping_mul(31).wrapping_add(o.out).wrapping_mul(31).wrapping_add(b.out);
                    vassert!(out_is::<M>(&r, true, want), "C09/infix.builds-node-from-left-operator-right-in-token-order");
                    vassert!(s.pos == b.exit_pos && s.believed == s.pos, "C09/infix.consumes-operator-and-right-operand");
                    vassert!(SecSpec::pre(&s0).child(0, &o).child(1, &b).holds(&s, Er::ZST), "C05/infix.emissions-of-operator-and-operand-in-order");
                    if inp.state.flag[0] {
                        vassert!(inp.state.reg[0] == pre_expr_pos && inp.state.reg[1] == b.exit_pos, "C07/infix.fold-span-covers-the-whole-sub-expression");
                        vassert!(inp.state.reg[2] == lhs as usize && inp.state.reg[3] == o.out as usize && inp.state.reg[4] == b.out as usize, "C09/infix.fold-receives-operands-in-token-order");
                    }
                    if M::EMIT {
                        vassert!(inp.state.flag[0], "C09/infix.fold-runs-when-a-value-is-built");
                    }
                }
            }
        }
        if !Er::ZST {
            vassert!(Offers::of(&s0, &[&o, &b]).matches(&s), "C06/infix.pending-error-is-furthest-offer");
        }
    });
}

pub fn h_prefix_step<M: VMode, Er: VEr>() {
    run::<u8, Er, (), _>(|inp, s0| {
        let x = ch::any_u16();
        let op = prefix(x, anyp::<SymIn<u8>, X<Er>>(0), |o: u16, r: u16, e: &mut MapExtra<'static, '_, SymIn<u8>, X<Er>>| {
            let sp = e.span();
            let st = e.state();
            st.reg[0] = sp.start;
            st.reg[1] = sp.end;
            st.flag[0] = true;
            o.wrapping_mul(31).wrapping_add(r)
        });
        let operand = anyp::<SymIn<u8>, X<Er>>(1);
        let f = |inp: &mut IR<'_, u8, Er>, mp: u32| -> PResult<M, u16> {
            inp.state.reg[5] = mp as usize;
            operand.gov::<M>(inp)
        };
        let pre_expr = inp.save();
        let r: PResult<M, u16> = op.do_parse_prefix::<M>(inp, &pre_expr, &f);
        let s = snap(inp);
        let (o, b) = (lg(inp, 0), lg(inp, 1));
        let unchanged = s.pos == s0.pos && s.believed == s.pos && SecSpec::pre(&s0).holds(&s, Er::ZST);
        vassert!(o.called && o.calls == 1 && o.entry_pos == s0.pos && o.entry_sec == s0.nsec, "C09/prefix.operator-token-tried-first");
        if !o.ok {
            vcover!(true, "prefix: operator token absent");
            vassert!(r.is_err() && !b.called && unchanged, "C09/prefix.absent-operator-leaves-input-untouched");
        } else {
            vassert!(b.called && b.calls == 1 && b.entry_pos == o.exit_pos && b.entry_sec == s0.nsec + o.emitted, "C09/prefix.operand-parsed-right-after-the-operator");
            vassert!(inp.state.reg[5] == 2 * (x as usize), "C09/prefix.operand-must-bind-at-least-as-tightly-as-the-operator");
            if !b.ok {
                vcover!(true, "prefix: operand missing");
                vassert!(r.is_err() && unchanged, "C09/prefix.operator-with-missing-operand-is-left-unconsumed");
            } else {
                vcover!(true, "prefix: applied");
                vassert!(ok_with::<M, _>(&r, o.out.wrapping_mul(31).wrapping_add(b.out)), "C09/prefix.builds-node-from-operator-then-operand");
                vassert!(s.pos == b.exit_pos && s.believed == s.pos, "C09/prefix.consumes-operator-and-operand");
                vassert!(SecSpec::pre(&s0).child(0, &o).child(1, &b).holds(&s, Er::ZST), "C05/prefix.emissions-of-operator-and-operand-in-order");
                if inp.state.flag[0] {
                    vassert!(inp.state.reg[0] == s0.pos && inp.state.reg[1] == b.exit_pos, "C07/prefix.fold-span-covers-the-whole-sub-expression");
                }
            }
        }
        if r.is_err() {
            vassert!(s.alt.is_some(), "C20/prefix.failure-leaves-pending-error");
        }
        if !Er::ZST {
            vassert!(Offers::of(&s0, &[&o, &b]).matches(&s), "C06/prefix.pending-error-is-furthest-offer");
        }
    });
}

pub fn h_postfix_step<M: VMode, Er: VEr>() {
    run::<u8, Er, (), _>(|inp, s0| {
        let x = ch::any_u16();
        let min_power = ch::any_u32();
        let lhs = ch::any_u16();
        let pre_expr_pos = ch::below(s0.pos);
        let op = postfix(x, anyp::<SymIn<u8>, X<Er>>(0), |l: u16, o: u16, e: &mut MapExtra<'static, '_, SymIn<u8>, X<Er>>| {
            let sp = e.span();
            let st = e.state();
            st.reg[0] = sp.start;
            st.reg[1] = sp.end;
            st.flag[0] = true;
            l.wrapping_mul(31).wrapping_add(o)
        });
        let pre_op = inp.save();
        let mut pre_expr = inp.cursor();
        pre_expr.inner = pre_expr_pos;
        let r = op.do_parse_postfix::<M>(inp, &pre_expr, &pre_op, M::bind(|| lhs), min_power);
        let s = snap(inp);
        let o = lg(inp, 0);
        let unchanged = s.pos == s0.pos && s.believed == s.pos && SecSpec::pre(&s0).holds(&s, Er::ZST);
        if 2 * (x as u32) + 1 < min_power {
            vcover!(true, "postfix: binds too loosely");
            vassert!(!o.called && out_is::<M>(&r, false, lhs) && unchanged, "C09/postfix.not-attempted-when-it-binds-less-tightly-than-required");
        } else {
            vassert!(o.called && o.calls == 1 && o.entry_pos == s0.pos && o.entry_sec == s0.nsec, "C09/postfix.operator-token-tried-after-the-operand");
            if !o.ok {
                vcover!(true, "postfix: operator token absent");
                vassert!(out_is::<M>(&r, false, lhs) && unchanged, "C09/postfix.absent-operator-leaves-operand-and-input-untouched");
            } else {
                vcover!(true, "postfix: applied");
                vassert!(out_is::<M>(&r, true, lhs.wrapping_mul(31).wrapping_add(o.out)), "C09/postfix.builds-node-from-operand-then-operator");
                vassert!(s.pos == o.exit_pos && s.believed == s.pos, "C09/postfix.consumes-the-operator");
                vassert!(SecSpec::pre(&s0).child(0, &o).holds(&s, Er::ZST), "C05/postfix.emissions-of-operator-kept");
                if inp.state.flag[0] {
                    vassert!(inp.state.reg[0] == pre_expr_pos && inp.state.reg[1] == o.exit_pos, "C07/postfix.fold-span-covers-the-whole-sub-expression");
                }
            }
        }
        if !Er::ZST {
            vassert!(Offers::of(&s0, &[&o]).matches(&s), "C06/postfix.pending-error-is-furthest-offer");
        }
    });
}

/// Operator tables try their operators in declaration order; the first that applies wins and the
/// left operand is threaded through the ones that do not. KIND 0 = tuple, 1 = Vec, 2 = boxed in a tuple.
/// Operators: slot 0 and slot 1 are the two infix operator tokens, slot 2 the right operand (two calls).
pub fn h_infix_table<M: VMode, Er: VEr, const KIND: usize>() {
    run::<u8, Er, (), _>(|inp, s0| {
        let (l0, x0, l1, x1) = (ch::any_bool(), ch::any_u16(), ch::any_bool(), ch::any_u16());
        let min_power = ch::any_u32();
        let lhs = ch::any_u16();
        let fold = |tag: u16| move |l: u16, o: u16, r: u16, _e: &mut MapExtra<'static, '_, SymIn<u8>, X<Er>>| l.wrapping_mul(31).wrapping_add(o).wrapping_mul(31).wrapping_add(r).wrapping_add(tag);
        let op0 = infix(assoc(l0, x0), anyp::<SymIn<u8>, X<Er>>(0), fold(1));
        let op1 = infix(assoc(l1, x1), anyp::<SymIn<u8>, X<Er>>(1), fold(2));
        let operand = anyp_multi::<SymIn<u8>, X<Er>>(2, 2);
        let f = |inp: &mut IR<'_, u8, Er>, mp: u32| -> PResult<M, u16> {
            let k = inp.state.reg[6];
            inp.state.reg[6] = k + 1;
            if k < 2 {
                inp.state.reg[4 + k] = mp as usize;
            }
            operand.gov::<M>(inp)
        };
        let pre_op = inp.save();
        let pre_expr = inp.cursor();
        let r = match KIND {
            0 => (op0, op1).do_parse_infix::<M>(inp, &pre_expr, &pre_op, M::bind(|| lhs), min_power, &f),
            1 => {
                // Vec needs one operator type: box both
                let v = vec![op0.boxed(), op1.boxed()];
                v.do_parse_infix::<M>(inp, &pre_expr, &pre_op, M::bind(|| lhs), min_power, &f)
            }
            _ => (op0.boxed(), op1.boxed()).do_parse_infix::<M>(inp, &pre_expr, &pre_op, M::bind(|| lhs), min_power, &f),
        };
        let s = snap(inp);
        let (a, b) = (lg(inp, 0), lg(inp, 1));
        let (r0, r1) = (lg(inp, 2), lg(inp, 3));
        // reference: which operator applies
        let (lp0, rp0) = powers(l0, x0);
        let (lp1, rp1) = powers(l1, x1);
        let tried0 = lp0 >= min_power;
        let applies0 = tried0 && a.ok && r0.ok;
        // number of operand calls consumed by the first operator
        let used0 = if tried0 && a.ok { 1 } else { 0 };
        let rhs1 = if used0 == 1 { r1 } else { r0 };
        let tried1 = !applies0 && lp1 >= min_power;
        let applies1 = tried1 && b.ok && rhs1.called && rhs1.ok;
        vassert!(a.called == tried0, "C09/table.first-operator-considered-first");
        if tried0 {
            vassert!(a.entry_pos == s0.pos && a.entry_sec == s0.nsec, "C09/table.first-operator-starts-at-the-operator-position");
        }
        vassert!(b.called == tried1, "C09/table.later-operator-tried-iff-earlier-ones-do-not-apply");
        if tried1 {
            vassert!(b.entry_pos == s0.pos && b.entry_sec == s0.nsec && b.entry_believed == s0.pos, "C09/table.later-operator-starts-from-the-same-position-with-nothing-left-behind");
        }
        if applies0 {
            vcover!(true, "table: first operator applies");
            let want = lhs.wrapping_mul(31).wrapping_add(a.out).wrapping_mul(31).wrapping_add(r0.out).wrapping_add(1);
            vassert!(out_is::<M>(&r, true, want) && s.pos == r0.exit_pos, "C09/table.first-applicable-operator-in-declaration-order-wins");
            vassert!(inp.state.reg[4] == rp0 as usize, "C09/table.operand-power-of-the-applied-operator");
        } else if applies1 {
            vcover!(true, "table: second operator applies");
            let want = lhs.wrapping_mul(31).wrapping_add(b.out).wrapping_mul(31).wrapping_add(rhs1.out).wrapping_add(2);
            vassert!(out_is::<M>(&r, true, want) && s.pos == rhs1.exit_pos, "C09/table.left-operand-threaded-unchanged-to-the-later-operator");
            vassert!(inp.state.reg[4 + used0] == rp1 as usize, "C09/table.operand-power-of-the-applied-operator");
            vassert!(SecSpec::pre(&s0).child(1, &b).child(2, &rhs1).holds(&s, Er::ZST), "C05/table.abandoned-operator-attempt-leaves-no-emissions");
        } else {
            vcover!(true, "table: no operator applies");
            vassert!(out_is::<M>(&r, false, lhs), "C09/table.left-operand-handed-back-when-nothing-applies");
            vassert!(s.pos == s0.pos && s.believed == s.pos && SecSpec::pre(&s0).holds(&s, Er::ZST), "C09/table.nothing-consumed-when-nothing-applies");
        }
    });
}

/// The `pratt_go` loop on `atom (op atom)*` with one infix operator of symbolic associativity and
/// power: atoms are calls of a stub (slots 0..3, at most three, by the harness bound) and operator
/// tokens calls of another (slots 3..6). With a single operator kind the textbook result is a left- or
/// right-nested chain.
pub fn h_pratt_chain<M: VMode, Er: VEr, const N: usize>() {
    run::<u8, Er, (), _>(|inp, s0| {
        let is_left = ch::any_bool();
        let x = ch::any_u16();
        inp.state.quiet = true;
        let mut atom = anyp_multi::<SymIn<u8>, X<Er>>(0, N);
        atom.progress = true;
        let mut optok = anyp_multi::<SymIn<u8>, X<Er>>(3, N);
        optok.bounded = true; // the third operator token is absent: expressions have at most 3 atoms
        optok.progress = true;
        // the fold records the order in which nodes are built: (left, right) operand values
        let p = atom.pratt((infix(assoc(is_left, x), optok, |l: u16, _o: u16, r: u16, e: &mut MapExtra<'static, '_, SymIn<u8>, X<Er>>| {
            let st = e.state();
            let k = st.reg[6];
            st.reg[6] = k + 1;
            if k < 2 {
                st.reg[2 * k] = l as usize;
                st.reg[2 * k + 1] = r as usize;
            }
            l.wrapping_mul(31).wrapping_add(r)
        }),));
        let r = p.gov::<M>(inp);
        let s = snap(inp);
        let (a0, a1, a2) = (lg(inp, 0), lg(inp, 1), lg(inp, 2));
        let (o0, o1) = (lg(inp, 3), lg(inp, 4));
        vassert!(a0.called && a0.entry_pos == s0.pos, "C09/pratt.expression-starts-with-an-atom");
        vassert!(r.is_ok() == a0.ok, "C09/pratt.accepts-iff-a-first-operand-is-present");
        if a0.ok {
            // how many atoms end up in the expression: an operator is consumed only with its right operand
            let two = o0.called && o0.ok && a1.called && a1.ok;
            let three = two && o1.called && o1.ok && a2.called && a2.ok;
            let n = if three { 3 } else if two { 2 } else { 1 };
            let end = if three { a2.exit_pos } else if two { a1.exit_pos } else { a0.exit_pos };
            if N >= 3 {
                vcover!(n == 3 && is_left, "pratt: three operands, left associative");
                vcover!(n == 3 && !is_left, "pratt: three operands, right associative");
            }
            vcover!(n == 2, "pratt: two operands");
            vcover!(n == 1 && o0.called && o0.ok, "pratt: operator without right operand");
            vassert!(s.pos == end && s.believed == s.pos, "C09/pratt.operator-without-right-operand-is-left-unconsumed");
            let want = if n == 1 {
                a0.out
            } else if n == 2 {
                a0.out.wrapping_mul(31).wrapping_add(a1.out)
            } else if is_left {
                a0.out.wrapping_mul(31).wrapping_add(a1.out).wrapping_mul(31).wrapping_add(a2.out)
            } else {
                a0.out.wrapping_mul(31).wrapping_add(a1.out.wrapping_mul(31).wrapping_add(a2.out))
            };
            vassert!(ok_with::<M, _>(&r, want), "C09/pratt.equal-powers-group-by-associativity");
            if M::EMIT {
                vassert!(inp.state.reg[6] == n - 1, "C09/pratt.one-node-per-consumed-operator");
            }
            vassert!(a0.exit_pos <= a1.entry_pos || !a1.called, "C09/pratt.operands-in-token-order");
        }
    });
}

harnesses! {
    infix_step_emit = h_infix_step::<Emit, VS>;
    infix_step_check = h_infix_step::<Check, VS>;
    prefix_step_emit = h_prefix_step::<Emit, VS>;
    prefix_step_check = h_prefix_step::<Check, VS>;
    postfix_step_emit = h_postfix_step::<Emit, VS>;
    postfix_step_check = h_postfix_step::<Check, VS>;
    infix_table_tuple_emit = h_infix_table::<Emit, VS, 0>;
    infix_table_tuple_check = h_infix_table::<Check, VS, 0>;
    #[kani::unwind(4)]
    infix_table_vec_emit_b2_t = h_infix_table::<Emit, VS, 1>;
    infix_table_boxed_emit = h_infix_table::<Emit, VS, 2>;
    #[kani::unwind(3)]
    pratt_chain_emit_b2 = h_pratt_chain::<Emit, VS, 2>;
    #[kani::unwind(3)]
    pratt_chain_check_b2 = h_pratt_chain::<Check, VS, 2>;
}
