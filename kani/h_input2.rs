// C10 / C07, additions to h_input.rs: the boxed Stream ("Stream (boxed or not)"), and the span an IterInput
// gives to a match that consumed nothing between two tokens (same shape as `MappedInput::span`: recorded
// finding C07).

use super::fw::*;
use super::h_input::{CountIter, SymIter};
use crate::input::{Input, ValueInput};
use crate::span::SimpleSpan;
use crate::stream::{BoxedStream, IterInput, Stream};

type Tok2 = (u8, SimpleSpan<usize>);

/// The contract of h_input::h_stream_input for `Stream::boxed()`.
pub fn h_stream_boxed_input() {
    let n = ch::below(3);
    let items = [ch::any_u8(), ch::any_u8(), ch::any_u8()];
    let mut pulls = 0usize;
    let it = CountIter { items, n, pos: 0, pulls: &mut pulls };
    type SI<'a> = BoxedStream<'a, u8>;
    let (c0, mut cache) = <SI as Input<'_>>::begin(Stream::from_iter(it).boxed());
    vassert!(c0 == 0, "C10/stream_boxed.begin-is-position-zero");
    let mut reach = 0usize;
    let mut step = 0;
    while step < 3 {
        let mut c = ch::below(reach);
        let i = c;
        let t = unsafe { <SI as ValueInput<'_>>::next(&mut cache, &mut c) };
        if i < n {
            vassert!(t == Some(items[i]) && c == i + 1, "C10/stream_boxed.next-yields-item-at-the-cursor-however-the-cursor-moved");
            if c > reach {
                reach = c;
            }
        } else {
            vassert!(t.is_none() && c == i, "C10/stream_boxed.none-at-the-end-without-moving");
        }
        vassert!(pulls <= n, "C10/stream_boxed.every-item-pulled-at-most-once");
        step += 1;
    }
    vcover!(reach == 3, "boxed stream: all items read");
    let sp = unsafe { <SI as Input<'_>>::span(&mut cache, &0..&reach) };
    vassert!(sp.start == 0 && sp.end == reach, "C07/stream_boxed.span-is-the-cursor-range");
}

/// IterInput: a match that consumed nothing, with a token still ahead.
pub fn h_iter_input_empty_match() {
    let n = 1 + ch::below(2);
    let items: [Tok2; 3] = [(ch::any_u8(), any_sp()), (ch::any_u8(), any_sp()), (ch::any_u8(), any_sp())];
    let eoi_pos = ch::any_usize();
    let mut prev_end = 0usize;
    let mut k = 0;
    while k < 3 {
        if k < n {
            ch::assume(prev_end <= items[k].1.start && items[k].1.start < items[k].1.end && items[k].1.end <= eoi_pos);
            prev_end = items[k].1.end;
        }
        k += 1;
    }
    let input = IterInput::new(SymIter { items, n, pos: 0 }, SimpleSpan::<usize>::from(eoi_pos..eoi_pos));
    type II = IterInput<SymIter, SimpleSpan<usize>>;
    let (mut c, mut cache) = <II as Input<'_>>::begin(input);
    let k0 = ch::below(1);
    ch::assume(k0 < n);
    if k0 == 1 {
        let _ = unsafe { <II as Input<'_>>::next_maybe(&mut cache, &mut c) };
    }
    let sp = unsafe { <II as Input<'_>>::span(&mut cache, &c..&c) };
    let lo = if k0 == 1 { items[0].1.end } else { 0 };
    let hi = items[k0].1.start;
    vcover!(k0 == 1, "iter input: empty match between two tokens");
    vassert_finding!(sp.start == sp.end && lo <= sp.start && sp.start <= hi, "C07/iter_input.empty-match-gets-an-empty-span-between-its-neighbours");
}
fn any_sp() -> SimpleSpan<usize> {
    let a = ch::any_usize();
    let b = ch::any_usize();
    (a..b).into()
}

harnesses! {
    #[kani::unwind(5)]
    stream_boxed_input_b3 = h_stream_boxed_input;
    #[kani::unwind(5)]
    iter_input_empty_match_b3 = h_iter_input_empty_match;
}
