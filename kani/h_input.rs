// C10 / C07: one `Input` contract proved per input representation. A cursor at index i: `next*`
// yields token i and a cursor at i+1, or None at the end without moving; spans and slices cover
// exactly the cursor range; slices are sub-slices of the caller's buffer (zero-copy).
// Concrete buffers are bounded (4 tokens / 4 bytes, names end in _b4); wrappers over the symbolic
// input are unbounded.

use super::fw::*;
use crate::input::{BorrowInput, ExactSizeInput, Input, SliceInput, ValueInput};
use crate::prelude::*;
use crate::stream::{IterInput, Stream};

// ------------------------------------------------------------------------------- &[T] / &[T; N]
pub fn h_slice_input<const ARRAY: bool>() {
    let buf: [u8; 4] = [ch::any_u8(), ch::any_u8(), ch::any_u8(), ch::any_u8()];
    let n = if ARRAY { 4 } else { ch::below(4) };
    let i = ch::below(n);
    let j = ch::below(n);
    ch::assume(i <= j);
    macro_rules! body {
        ($inp:expr, $I:ty) => {{
            let (c0, mut cache) = <$I as Input<'_>>::begin($inp);
            vassert!(<$I as Input<'_>>::cursor_location(&c0) == 0, "C10/slice.begin-is-position-zero");
            let mut c = i;
            let t = unsafe { <$I as Input<'_>>::next_maybe(&mut cache, &mut c) };
            let mut c2 = i;
            let t2 = unsafe { <$I as ValueInput<'_>>::next(&mut cache, &mut c2) };
            let mut c3 = i;
            let t3 = unsafe { <$I as BorrowInput<'_>>::next_ref(&mut cache, &mut c3) };
            if i < n {
                vcover!(true, "slice: token");
                vassert!(t.map(|x| *x) == Some(buf[i]) && t2 == Some(buf[i]) && t3.map(|x| *x) == Some(buf[i]), "C10/slice.next-yields-the-token-at-the-cursor");
                vassert!(c == i + 1 && c2 == i + 1 && c3 == i + 1, "C10/slice.next-advances-by-exactly-one");
                vassert!(core::ptr::eq(t.unwrap(), &buf[i]), "C07/slice.borrowed-token-is-the-callers-memory");
            } else {
                vcover!(true, "slice: end");
                vassert!(t.is_none() && t2.is_none() && t3.is_none() && c == i && c2 == i && c3 == i, "C10/slice.none-at-the-end-without-moving");
            }
            let sp = unsafe { <$I as Input<'_>>::span(&mut cache, &i..&j) };
            vassert!(sp.start == i && sp.end == j, "C07/slice.span-is-the-cursor-range");
            let spf = unsafe { <$I as ExactSizeInput<'_>>::span_from(&mut cache, &i..) };
            vassert!(spf.start == i && spf.end == n, "C07/slice.span-from-extends-to-the-end-of-input");
            let sl = unsafe { <$I as SliceInput<'_>>::slice(&mut cache, &i..&j) };
            vassert!(sl.len() == j - i && sl.as_ptr() == unsafe { buf.as_ptr().add(i) }, "C07/slice.slice-is-a-sub-slice-of-the-callers-buffer-equal-to-input-of-span");
            let slf = unsafe { <$I as SliceInput<'_>>::slice_from(&mut cache, &i..) };
            vassert!(slf.len() == n - i && slf.as_ptr() == unsafe { buf.as_ptr().add(i) }, "C07/slice.slice-from-is-the-rest-of-the-callers-buffer");
        }};
    }
    if ARRAY {
        body!(&buf, &[u8; 4]);
    } else {
        body!(&buf[..n], &[u8]);
    }
}

// ----------------------------------------------------------------------------------------- &str
/// All valid UTF-8 strings of at most 4 bytes, one step from any cursor on a char boundary: the
/// step yields the char encoded there, advances by its width and lands on a char boundary again (so by
/// induction every cursor the input hands out is a boundary and the unchecked decode is sound).
pub fn h_str_input() {
    let bytes: [u8; 4] = [ch::any_u8(), ch::any_u8(), ch::any_u8(), ch::any_u8()];
    let n = ch::below(4);
    if let Ok(s) = core::str::from_utf8(&bytes[..n]) {
        let (c0, mut cache) = <&str as Input<'_>>::begin(s);
        vassert!(c0 == 0 && s.is_char_boundary(c0), "C10/str.begin-is-position-zero-a-char-boundary");
        let before = ch::below(n);
        ch::assume(s.is_char_boundary(before));
        let mut cur = before;
        let t = unsafe { <&str as Input<'_>>::next_maybe(&mut cache, &mut cur) };
        match t {
            Some(c) => {
                vcover!(c.len_utf8() > 1, "str: multi-byte char");
                vassert!(before < n, "C10/str.token-only-before-the-end");
                vassert!(cur == before + c.len_utf8() && cur <= n, "C10/str.cursor-advances-by-the-char-width");
                vassert!(s.is_char_boundary(cur), "C20/str.cursor-stays-on-a-char-boundary");
                let mut enc = [0u8; 4];
                let e = c.encode_utf8(&mut enc).len();
                let same = e == cur - before && enc[0] == bytes[before] && (e < 2 || enc[1] == bytes[before + 1]) && (e < 3 || enc[2] == bytes[before + 2]) && (e < 4 || enc[3] == bytes[before + 3]);
                vassert!(same, "C10/str.next-yields-the-char-encoded-at-the-cursor");
                let sp = unsafe { <&str as Input<'_>>::span(&mut cache, &before..&cur) };
                vassert!(sp.start == before && sp.end == cur, "C07/str.span-is-the-byte-range");
            }
            None => {
                vcover!(n > 0, "str: end of a non-empty string");
                vassert!(before == n && cur == before, "C10/str.none-exactly-at-the-end-without-moving");
            }
        }
    }
}
/// Replaces the message-formatting failure path of `str` indexing (never taken when the contract
/// holds; its formatting machinery alone exhausts the model checker's memory).
pub fn slice_fail_stub(_s: &str, _begin: usize, _end: usize) -> ! {
    panic!("str slice index out of range or not on a char boundary")
}
/// Slices of a &str input between two char boundaries are sub-slices of the caller's buffer.
pub fn h_str_slice() {
    let bytes: [u8; 4] = [ch::any_u8(), ch::any_u8(), ch::any_u8(), ch::any_u8()];
    let n = ch::below(4);
    if let Ok(s) = core::str::from_utf8(&bytes[..n]) {
        let (_c0, mut cache) = <&str as Input<'_>>::begin(s);
        let (i, j) = (ch::below(n), ch::below(n));
        ch::assume(i <= j && s.is_char_boundary(i) && s.is_char_boundary(j));
        vcover!(i < j, "str: non-empty slice");
        let sl = unsafe { <&str as SliceInput<'_>>::slice(&mut cache, &i..&j) };
        vassert!(sl.len() == j - i && sl.as_ptr() == unsafe { s.as_ptr().add(i) }, "C07/str.slice-is-a-sub-slice-of-the-callers-buffer-equal-to-input-of-span");
        let slf = unsafe { <&str as SliceInput<'_>>::slice_from(&mut cache, &i..) };
        vassert!(slf.len() == n - i && slf.as_ptr() == unsafe { s.as_ptr().add(i) }, "C07/str.slice-from-is-the-rest-of-the-callers-buffer");
    }
}

// -------------------------------------------------------------------- Input::map over the symbolic input
pub type Tok2 = (u8, SimpleSpan<usize>);
impl SymTok for Tok2 {
    fn fresh() -> Self {
        (ch::any_u8(), (ch::any_usize()..ch::any_usize()).into())
    }
    fn zero() -> Self {
        (0, (0..0).into())
    }
}
/// Walk k0 tokens to a start cursor, k1 more to an end cursor, ask for the span.
pub fn h_mapped_input() {
    let len = ch::any_usize();
    let eoi_pos = ch::any_usize();
    let eoi: SimpleSpan<usize> = (eoi_pos..eoi_pos).into();
    fn id2(t: Tok2) -> Tok2 {
        t
    }
    type MI = crate::input::MappedInput<u8, SimpleSpan<usize>, SymIn<Tok2>, fn(Tok2) -> Tok2>;
    let inp: MI = SymIn::<Tok2>::new(len).map(eoi, id2 as fn(Tok2) -> Tok2);
    let (mut c, mut cache) = <MI as Input<'_>>::begin(inp);
    let k0 = ch::below(1);
    let k1 = ch::below(2);
    ch::assume(k0 + k1 <= len);
    // token spans as a lexer produces them: well-formed and in order, all before the end-of-input span
    let mut prev_end = 0usize;
    let mut spans: [SimpleSpan<usize>; 4] = [(0..0).into(); 4];
    let mut toks = [0u8; 4];
    let mut k = 0;
    while k < 4 {
        if k < len && k <= k0 + k1 {
            let (t, sp) = cache.0.tok_at(k);
            ch::assume(prev_end <= sp.start && sp.start < sp.end && sp.end <= eoi_pos);
            prev_end = sp.end;
            spans[k] = sp;
            toks[k] = t;
        }
        k += 1;
    }
    macro_rules! step {
        () => {{
            let i = <MI as Input<'_>>::cursor_location(&c);
            let t = unsafe { <MI as Input<'_>>::next_maybe(&mut cache, &mut c) };
            vassert!(t == Some(toks[i]), "C10/mapped.next-yields-the-token-part-in-order");
            vassert!(<MI as Input<'_>>::cursor_location(&c) == i + 1, "C10/mapped.next-advances-by-exactly-one");
        }};
    }
    if k0 >= 1 {
        step!();
    }
    let start = c;
    if k1 >= 1 {
        step!();
    }
    if k1 >= 2 {
        step!();
    }
    let end = c;
    let sp: SimpleSpan<usize> = unsafe { <MI as Input<'_>>::span(&mut cache, &start..&end) };
    if k1 >= 1 {
        vcover!(k1 == 2 && k0 == 1, "mapped: two-token match after one token");
        vassert!(sp.start == spans[k0].start && sp.end == spans[k0 + k1 - 1].end, "C07/mapped.non-empty-match-spans-first-token-start-to-last-token-end");
        vassert!(sp.start <= sp.end, "C07/mapped.span-is-well-formed");
    } else {
        // a match that consumed nothing: an empty span between the preceding and the following token
        vcover!(k0 == 1 && k0 < len, "mapped: empty match between two tokens");
        let lo = if k0 >= 1 { spans[k0 - 1].end } else { 0 };
        let hi = if k0 < len { spans[k0].start } else { eoi_pos };
        if k0 >= len {
            // at the end of the input (after the last token, or an empty input): the library returns the
            // zero-width end-of-input span, which lies between the last token and the end of input
            vcover!(k0 == 1, "mapped: empty match at the end of input after a token");
            vassert!(sp.start == sp.end && lo <= sp.start && sp.start <= hi, "C07/mapped.empty-match-at-the-end-of-input-gets-an-empty-span-after-the-last-token");
            // C16: a nested parse of a token tree runs on such an input; a failure at its end ("ran out of tokens")
            // must surface with a well-formed span
            vassert!(sp.start <= sp.end && sp.start == eoi_pos, "C16/mapped.failure-at-the-end-of-a-nested-input-has-a-well-formed-span");
            // C10: "same error positions" - a failure at the end of the input is reported at the zero-width
            // end-of-input span the caller supplied, as a slice reports len..len
            vassert!(sp.start == eoi_pos && sp.end == eoi_pos, "C10/mapped.span-at-the-end-of-input-is-the-zero-width-end-of-input-span");
        } else {
            vassert_finding!(sp.start == sp.end && lo <= sp.start && sp.start <= hi, "C07/mapped.empty-match-gets-an-empty-span-between-its-neighbours");
        }
    }
    let _ = c;
}

// ------------------------------------------------------------------------------------- IterInput
#[derive(Clone, Copy)]
pub struct SymIter {
    pub items: [Tok2; 3],
    pub n: usize,
    pub pos: usize,
}
impl Iterator for SymIter {
    type Item = Tok2;
    fn next(&mut self) -> Option<Tok2> {
        if self.pos < self.n {
            let t = self.items[self.pos];
            self.pos += 1;
            Some(t)
        } else {
            None
        }
    }
}
pub fn h_iter_input() {
    let n = ch::below(3);
    let items: [Tok2; 3] = [Tok2::fresh(), Tok2::fresh(), Tok2::fresh()];
    let eoi_pos = ch::any_usize();
    let mut prev_end = 0usize;
    let mut k = 0;
    while k < 3 {
        if k < n {
            ch::assume(prev_end <= items[k].1.start && items[k].1.start < items[k].1.end && items[k].1.end <= eoi_pos);
            prev_end = items[k].1.end;
        }
        k += 1;
    }
    let input = IterInput::new(SymIter { items, n, pos: 0 }, SimpleSpan::<usize>::from(eoi_pos..eoi_pos));
    type II = IterInput<SymIter, SimpleSpan<usize>>;
    let (mut c, mut cache) = <II as Input<'_>>::begin(input);
    vassert!(<II as Input<'_>>::cursor_location(&c) == 0, "C10/iter_input.begin-is-position-zero");
    let k0 = ch::below(1);
    ch::assume(k0 <= n);
    if k0 == 1 {
        let t = unsafe { <II as Input<'_>>::next_maybe(&mut cache, &mut c) };
        vassert!(t == Some(items[0].0), "C10/iter_input.next-yields-items-in-order");
    }
    let start = c.clone();
    let i = <II as Input<'_>>::cursor_location(&c);
    let t = unsafe { <II as Input<'_>>::next_maybe(&mut cache, &mut c) };
    if i < n {
        vcover!(true, "iter input: token");
        vassert!(t == Some(items[i].0) && <II as Input<'_>>::cursor_location(&c) == i + 1, "C10/iter_input.next-yields-items-in-order");
        // rewinding = reusing an old cursor: the same token comes again
        let mut again = start.clone();
        let t2 = unsafe { <II as Input<'_>>::next_maybe(&mut cache, &mut again) };
        vassert!(t2 == t, "C10/iter_input.old-cursor-replays-the-same-token");
        let sp = unsafe { <II as Input<'_>>::span(&mut cache, &start..&c) };
        vassert!(sp.start == items[i].1.start && sp.end == items[i].1.end, "C07/iter_input.non-empty-match-spans-first-token-start-to-last-token-end");
    } else {
        vcover!(true, "iter input: end");
        vassert!(t.is_none() && <II as Input<'_>>::cursor_location(&c) == i, "C10/iter_input.none-at-the-end-without-moving");
        // a match that consumed nothing at the end of the input: the zero-width end-of-input span
        let sp = unsafe { <II as Input<'_>>::span(&mut cache, &start..&c) };
        vcover!(k0 == 1, "iter input: empty match at the end after a token");
        vassert!(sp.start == sp.end && sp.start == eoi_pos, "C07/iter_input.empty-match-at-the-end-of-input-gets-the-empty-end-of-input-span");
    }
}

// ---------------------------------------------------------------------------------------- Stream
pub struct CountIter {
    pub items: [u8; 3],
    pub n: usize,
    pub pos: usize,
    pub pulls: *mut usize,
}
impl Iterator for CountIter {
    type Item = u8;
    fn next(&mut self) -> Option<u8> {
        if self.pos < self.n {
            let t = self.items[self.pos];
            self.pos += 1;
            unsafe { *self.pulls += 1 };
            Some(t)
        } else {
            None
        }
    }
}
/// A Stream pulls each item at most once and in order however the cursor moves (3 items at most, so
/// the refill path runs but the batch size is not reached).
pub fn h_stream_input() {
    let n = ch::below(3);
    let items = [ch::any_u8(), ch::any_u8(), ch::any_u8()];
    let mut pulls = 0usize;
    let it = CountIter { items, n, pos: 0, pulls: &mut pulls };
    type SI = Stream<CountIter>;
    let (c0, mut cache) = <SI as Input<'_>>::begin(Stream::from_iter(it));
    vassert!(c0 == 0, "C10/stream.begin-is-position-zero");
    // three reads at arbitrary (previously reachable) cursors: forwards, backwards, repeated
    let mut reach = 0usize; // cursors 0..=reach have been handed out
    let mut step = 0;
    while step < 3 {
        let mut c = ch::below(reach);
        let i = c;
        let t = unsafe { <SI as ValueInput<'_>>::next(&mut cache, &mut c) };
        if i < n {
            vassert!(t == Some(items[i]) && c == i + 1, "C10/stream.next-yields-item-at-the-cursor-however-the-cursor-moved");
            if c > reach {
                reach = c;
            }
        } else {
            vassert!(t.is_none() && c == i, "C10/stream.none-at-the-end-without-moving");
        }
        vassert!(pulls <= n, "C10/stream.every-item-pulled-at-most-once");
        step += 1;
    }
    vcover!(reach == 3, "stream: all items read");
    let sp = unsafe { <SI as Input<'_>>::span(&mut cache, &0..&reach) };
    vassert!(sp.start == 0 && sp.end == reach, "C07/stream.span-is-the-cursor-range");
}

// --------------------------------------------------------- map_span / with_context over the symbolic input
pub fn h_span_wrappers() {
    let len = ch::any_usize();
    let (i, j) = (ch::below(len), ch::below(len));
    ch::assume(i <= j);
    let off = 7usize;
    ch::assume(len < usize::MAX - 7);
    fn shift(s: SimpleSpan<usize>) -> SimpleSpan<usize> {
        (s.start + 7..s.end + 7).into()
    }
    type MS = crate::input::MappedSpan<SimpleSpan<usize>, SymIn<u8>, fn(SimpleSpan<usize>) -> SimpleSpan<usize>>;
    // map_span: spans are those of the wrapped input passed through the user function; tokens unchanged
    let mi: MS = SymIn::<u8>::new(len).map_span(shift as fn(SimpleSpan<usize>) -> SimpleSpan<usize>);
    let (c0, mut cache) = <MS as Input<'_>>::begin(mi);
    vassert!(c0 == 0, "C10/map_span.begin-is-position-zero");
    let sp: SimpleSpan<usize> = unsafe { <MS as Input<'_>>::span(&mut cache, &i..&j) };
    vassert!(sp.start == i + off && sp.end == j + off, "C10/map_span.spans-differ-only-by-the-documented-mapping");
    let mut c = i;
    let t = unsafe { <MS as ValueInput<'_>>::next(&mut cache, &mut c) };
    let want = if i < len { Some(cache.0.tok_at(i)) } else { None };
    vcover!(t.is_some(), "map_span: token");
    vassert!(t == want && c == if i < len { i + 1 } else { i }, "C10/map_span.tokens-and-cursors-as-the-wrapped-input");
    // with_context: the same span with the context attached
    let ctx = ch::any_u16();
    type WC = crate::input::WithContext<(u16, SimpleSpan<usize>), SymIn<u8>>;
    let wi: WC = SymIn::<u8>::new(len).with_context::<(u16, SimpleSpan<usize>)>(ctx);
    let (_c0, mut cache2) = <WC as Input<'_>>::begin(wi);
    let sp2: (u16, SimpleSpan<usize>) = unsafe { <WC as Input<'_>>::span(&mut cache2, &i..&j) };
    vassert!(sp2.0 == ctx && sp2.1.start == i && sp2.1.end == j, "C10/with_context.spans-differ-only-by-the-added-context");
}

harnesses! {
    slice_input_b4 = h_slice_input::<false>;
    array_input_b4 = h_slice_input::<true>;
    #[kani::unwind(6)]
    str_input_b4 = h_str_input;
    #[kani::unwind(6)]
    #[kani::stub(core::str::slice_error_fail, slice_fail_stub)]
    str_slice_b4 = h_str_slice;
    #[kani::unwind(5)]
    mapped_input = h_mapped_input;
    #[kani::unwind(5)]
    iter_input_b3 = h_iter_input;
    #[kani::unwind(5)]
    stream_input_b3 = h_stream_input;
    span_wrappers = h_span_wrappers;
}
