// C15 (context providers / configure), C16 (nested_in), C17 (labelled / map_err), C18 (with_state).

use super::fw::*;
use super::h_comb::VEr;
use super::h_comb2::{seq_spec, unary_spec};
use crate::combinator::RepeatedCfg;
use crate::prelude::*;
use crate::primitive::{map_ctx, JustCfg};
use crate::private::{Check, Emit, Mode};
use crate::{ConfigIterParser, ConfigParser, IterParser, Parser};

type XC = X<VS, u16>;

// ------------------------------------------------------------------------------------------ C15
pub fn h_with_ctx<M: VMode>() {
    run::<u8, VS, (), _>(|inp, s0| {
        let k = ch::any_u16();
        let r = anyp::<SymIn<u8>, XC>(0).with_ctx(k).gov::<M>(inp);
        let s = snap(inp);
        let a = lg(inp, 0);
        let v = unary_spec(&s0, &s, &a, r.is_ok(), false);
        vcover!(a.ok, "with_ctx: child succeeds");
        vassert!(v[0] && v[1] && v[2] && v[3] && v[4], "C15/with_ctx.transparent-except-for-the-context");
        vassert!(a.ctx_seen == k, "C15/with_ctx.child-sees-the-supplied-context");
        vassert!(Offers::of(&s0, &[&a]).matches(&s), "C06/with_ctx.pending-error-is-that-of-the-child");
        if a.ok {
            vassert!(ok_with::<M, _>(&r, a.out), "C15/with_ctx.output-of-the-child");
        }
    });
}
/// Nearest provider wins, and the outer context is back in force after the inner provider returns.
pub fn h_ctx_nearest<M: VMode>() {
    run::<u8, VS, (), _>(|inp, s0| {
        let (k1, k2) = (ch::any_u16(), ch::any_u16());
        let a = anyp::<SymIn<u8>, XC>(0);
        let b = anyp::<SymIn<u8>, XC>(1);
        let r = a.with_ctx(k2).then(b).with_ctx(k1).gov::<M>(inp);
        let s = snap(inp);
        let (la, lb) = (lg(inp, 0), lg(inp, 1));
        let v = seq_spec(&s0, &s, &[(0, la), (1, lb)], r.is_ok(), false);
        vassert!(v[0] && v[1] && v[2] && v[3] && v[4] && v[5], "C15/ctx_nearest.sequence-semantics-unchanged-by-context-providers");
        vassert!(la.ctx_seen == k2, "C15/ctx_nearest.nearest-enclosing-provider-wins");
        if lb.called {
            vcover!(true, "ctx: second parser runs");
            vassert!(lb.ctx_seen == k1, "C15/ctx_nearest.outer-context-back-in-force-after-inner-provider");
        }
    });
}
/// ignore_with_ctx / then_with_ctx: the right parser sees the output of the left one for this attempt.
pub fn h_ctx_from_left<M: VMode, const THEN: bool>() {
    run::<u8, VS, (), _>(|inp, s0| {
        let a = anyp::<SymIn<u8>, X<VS>>(0);
        let b = anyp::<SymIn<u8>, XC>(1);
        let (ok, out_ok) = if THEN {
            let r = a.then_with_ctx(b).gov::<M>(inp);
            (r.is_ok(), ok_with::<M, _>(&r, (lg(inp, 0).out, lg(inp, 1).out)))
        } else {
            let r = a.ignore_with_ctx(b).gov::<M>(inp);
            (r.is_ok(), ok_with::<M, _>(&r, lg(inp, 1).out))
        };
        let s = snap(inp);
        let (la, lb) = (lg(inp, 0), lg(inp, 1));
        let v = seq_spec(&s0, &s, &[(0, la), (1, lb)], ok, false);
        vassert!(v[0] && v[1] && v[2] && v[3] && v[4] && v[5] && v[6] && v[7], "C15/ctx_from_left.sequence-semantics");
        if lb.called {
            vcover!(lb.ok, "ctx from left: both succeed");
            vassert!(lb.ctx_seen == la.out, "C15/ctx_from_left.right-parser-sees-the-left-output-of-this-attempt");
        }
        if la.ok && lb.ok {
            vassert!(out_ok, "C15/ctx_from_left.output");
        }
        vassert!(Offers::of(&s0, &[&la, &lb]).matches(&s), "C06/ctx_from_left.pending-error-is-furthest-offer");
    });
}
pub fn h_map_ctx<M: VMode>() {
    run::<u8, VS, (), _>(|inp, s0| {
        let k = ch::any_u16();
        let inner = map_ctx::<_, u16, SymIn<u8>, XC, XC, _>(|c: &u16| c.wrapping_mul(3).wrapping_add(1), anyp::<SymIn<u8>, XC>(0));
        let r = inner.with_ctx(k).gov::<M>(inp);
        let s = snap(inp);
        let a = lg(inp, 0);
        let v = unary_spec(&s0, &s, &a, r.is_ok(), false);
        vcover!(a.ok, "map_ctx: child succeeds");
        vassert!(v[0] && v[1] && v[2] && v[3] && v[4], "C15/map_ctx.transparent-except-for-the-context");
        vassert!(a.ctx_seen == k.wrapping_mul(3).wrapping_add(1), "C15/map_ctx.child-sees-the-mapped-current-context");
    });
}
/// just(..).configure(seq from context) matches as just(that seq) would.
pub fn h_configure_just<M: VMode>() {
    run::<u8, VErr, (), _>(|inp, s0| {
        let (stat, dynamic) = (ch::any_u8(), ch::any_u8());
        let use_cfg = ch::any_bool();
        let p = just::<u8, SymIn<u8>, X<VErr, u8>>(stat).configure(move |cfg: JustCfg<u8>, ctx: &u8| if use_cfg { cfg.seq(*ctx) } else { cfg });
        let r = p.with_ctx(dynamic).gov::<M>(inp);
        let s = snap(inp);
        let here = if s0.pos < s0.len { Some(inp.cache.tok_at(s0.pos)) } else { None };
        let want = if use_cfg { dynamic } else { stat };
        vcover!(use_cfg && r.is_ok(), "configure just: configured token matched");
        vassert!(r.is_ok() == (here == Some(want)), "C15/configure_just.matches-exactly-as-the-statically-configured-parser");
        if r.is_ok() {
            vassert!(s.pos == s0.pos + 1 && ok_with::<M, _>(&r, want), "C15/configure_just.consumes-and-outputs-the-configured-token");
        } else {
            vassert!(s.pos == s0.pos && s.alt.is_some(), "C15/configure_just.failure-as-the-static-parser");
        }
    });
}
/// repeated().configure(bounds from context): one step equals next_cfg with those bounds.
pub fn h_configure_repeated<M: VMode>() {
    run::<u8, VS, (), _>(|inp, s0| {
        let n = ch::any_u16();
        // bounds set statically on the builder are overridden by what the configuration sets
        let (b_lo, b_capped, b_hi) = (ch::any_usize(), ch::any_bool(), ch::any_usize());
        let mut base = anyp_prog::<SymIn<u8>, XC>(0).repeated().at_least(b_lo);
        if b_capped {
            base = base.at_most(b_hi);
        }
        vcover!(b_capped && (n as usize) > b_hi, "configure repeated: configured count above the builder's cap");
        vcover!((n as usize) < b_lo, "configure repeated: configured count below the builder's minimum");
        let p = base.configure(|cfg: RepeatedCfg, ctx: &u16| cfg.exactly(*ctx as usize));
        let r: Result<Option<M::Output<u16>>, ()> = inp.with_ctx::<XC, _>(&n, |inp2| {
            let mut st = p.make_iter::<M>(inp2)?;
            p.next::<M>(inp2, &mut st)
        });
        let s = snap(inp);
        let a = lg(inp, 0);
        // first step of exactly(n): n == 0 -> stop without trying; else try an item, failing if it fails
        if n == 0 {
            vcover!(true, "configure repeated: zero items requested");
            vassert!(matches!(r, Ok(None)) && !a.called && s.pos == s0.pos, "C15/configure_repeated.bounds-from-context-applied-exactly-zero");
        } else {
            vassert!(a.called && a.entry_pos == s0.pos && a.ctx_seen == n, "C15/configure_repeated.item-tried-under-the-same-context");
            if a.ok {
                vcover!(true, "configure repeated: item accepted");
                vassert!(matches!(r, Ok(Some(_))) && s.pos == a.exit_pos, "C15/configure_repeated.item-yielded");
            } else {
                vassert!(r.is_err() && s.alt.is_some(), "C15/configure_repeated.too-few-items-is-a-failure-as-for-static-exactly");
            }
        }
    });
}
/// just(placeholder sequence).configure(seq from context): matches exactly as `just(that sequence)`,
/// also when the configured sequence is empty (bounded: sequences of <= 1 token).
pub fn h_configure_just_seq<M: VMode>() {
    run::<u8, VErr, (), _>(|inp, s0| {
        static EMPTY: [u8; 0] = [];
        let (stat, dynamic) = (ch::any_u8(), ch::any_u8());
        let stat_seq: &'static [u8] = alloc::boxed::Box::leak(alloc::boxed::Box::new([stat]));
        let dyn_seq: &'static [u8] = if ch::any_bool() { &EMPTY } else { alloc::boxed::Box::leak(alloc::boxed::Box::new([dynamic])) };
        let p = just::<&'static [u8], SymIn<u8>, X<VErr, &'static [u8]>>(stat_seq).configure(|cfg: JustCfg<&'static [u8]>, ctx: &&'static [u8]| cfg.seq(*ctx));
        let r = p.with_ctx(dyn_seq).gov::<M>(inp);
        let s = snap(inp);
        let here = if s0.pos < s0.len { Some(inp.cache.tok_at(s0.pos)) } else { None };
        vcover!(dyn_seq.is_empty(), "configure just: empty configured sequence");
        let want_ok = dyn_seq.is_empty() || here == Some(dynamic);
        vassert!(r.is_ok() == want_ok, "C15/configure_just.sequence-from-context-matches-exactly-as-the-static-sequence");
        if r.is_ok() {
            vassert!(s.pos == s0.pos + dyn_seq.len() && s.believed == s.pos, "C15/configure_just.consumes-exactly-the-configured-sequence");
        } else {
            vassert!(s.pos == s0.pos && s.alt.is_some(), "C15/configure_just.failure-restores-position-and-leaves-an-error");
        }
    });
}
/// try_configure: a configuration error becomes a failure of the parser at the current position.
pub fn h_try_configure<M: VMode>() {
    run::<u8, VS, (), _>(|inp, s0| {
        let bad = ch::any_bool();
        let p = anyp_prog::<SymIn<u8>, X<VS>>(0).repeated().try_configure(move |cfg: RepeatedCfg, _ctx: &(), _span| if bad { Err(VS { id: 77, merges: 0, merged_id: 0 }) } else { Ok(cfg.at_most(0)) });
        let r = p.make_iter::<M>(inp);
        let s = snap(inp);
        vcover!(bad, "try_configure: configuration error");
        vassert!(r.is_ok() == !bad, "C15/try_configure.configuration-error-is-a-failure");
        vassert!(s.pos == s0.pos && s.nsec == s0.nsec, "C15/try_configure.nothing-consumed-by-configuring");
        if bad {
            vassert!(Offers::entry(&s0).at(s0.pos, 77).matches(&s), "C15/try_configure.user-error-offered-at-current-position");
        }
    });
}

// ------------------------------------------------------------------------------------------ C16
/// a.nested_in(b): slot 0 = b (outer input, produces the inner input), slot 1 = a (inner input).
pub fn h_nested_in<M: VMode>() {
    run::<u8, VS, (), _>(|inp, s0| {
        let len2 = ch::any_usize();
        inp.state.len2 = len2;
        let b = anyp::<SymIn<u8>, X<VS>>(0).map(move |_o: u16| SymIn::<u8>::new(len2));
        let mut a = anyp::<SymIn<u8>, X<VS>>(1);
        a.inner = true;
        let r = a.nested_in(b).gov::<M>(inp);
        let s = snap(inp);
        let (lb, la) = (lg(inp, 0), lg(inp, 1));
        vassert!(lb.called && lb.calls == 1 && lb.entry_pos == s0.pos && lb.entry_sec == s0.nsec, "C16/nested_in.outer-parser-runs-first-from-entry");
        if !lb.ok {
            vcover!(true, "nested_in: outer parser fails");
            vassert!(r.is_err() && !la.called, "C16/nested_in.fails-when-no-inner-input-is-produced");
        } else {
            vassert!(la.called && la.calls == 1 && la.entry_pos == 0, "C16/nested_in.inner-parser-starts-at-the-beginning-of-the-inner-input");
            vassert!(la.entry_sec == 0 && !la.entry_alt_some, "C16/nested_in.inner-parse-is-isolated-from-outer-errors");
            let complete = la.ok && la.exit_pos == len2;
            vassert!(r.is_ok() == complete, "C16/nested_in.succeeds-iff-inner-parser-matches-the-inner-input-completely");
            if complete {
                vcover!(true, "nested_in: success");
                vassert!(ok_with::<M, _>(&r, la.out), "C16/nested_in.output-of-the-inner-parser");
                vassert!(s.pos == lb.exit_pos, "C16/nested_in.outer-input-advances-by-exactly-what-the-outer-parser-consumed");
                vassert!(s.nsec == s0.nsec + lb.emitted + la.emitted, "C16/nested_in.inner-emissions-surface-in-the-outer-result");
            } else {
                vcover!(la.ok, "nested_in: inner input not exhausted");
                vcover!(!la.ok, "nested_in: inner parser fails");
                vassert!(s.alt.is_some(), "C16/nested_in.inner-failure-surfaces-as-a-pending-error");
                vassert!(s.nsec >= s0.nsec, "C05/nested_in.failure-keeps-earlier-emissions");
                vcover!(la.emitted > 0, "nested_in: inner parse emits, then fails");
                vassert!(s.nsec == s0.nsec + lb.emitted + la.emitted, "C16/nested_in.inner-emissions-surface-together-with-the-inner-failure");
            }
            // the outer pending error is never lost: it is at least as far as every outer offer
            let outer = Offers::of(&s0, &[&lb]);
            if let Some(m) = outer.max_pos() {
                // C16: "the outer grammar backtracks over a failed nested parse like over any other failure" - the
                // failure pending in the outer parse is not lost to the nested one
                vassert2!(s.alt.map(|x| x.0 >= m).unwrap_or(false), "C06/nested_in.outer-pending-error-is-preserved-by-priority", "C16/nested_in.outer-pending-error-is-preserved-by-priority");
            }
            // an inner failure is reported at the outer position of the nested input
            if !complete {
                vassert!(s.alt.map(|x| x.0 >= lb.exit_pos).unwrap_or(false), "C16/nested_in.inner-failure-reported-no-earlier-than-the-nested-input");
            }
        }
    });
}

// ------------------------------------------------------------------------------------------ C17
pub fn h_labelled<M: VMode, const CTX: bool>() {
    run::<u8, VErr, (), _>(|inp, s0| {
        let l = ch::any_u16();
        let p = anyp::<SymIn<u8>, X<VErr>>(0).labelled(VLabel(l));
        let r = if CTX { p.as_context().gov::<M>(inp) } else { p.gov::<M>(inp) };
        let s = snap(inp);
        let alt = alt_full(inp);
        let a = lg(inp, 0);
        let v = unary_spec(&s0, &s, &a, r.is_ok(), false);
        vassert!(v[0], "C17/labelled.child-runs-once-from-entry-state");
        vassert!(v[1] && v[2], "C17/labelled.never-changes-acceptance-or-consumption");
        vassert!(v[3], "C17/labelled.never-changes-the-number-of-errors");
        vassert!(v[4], "C20/labelled.failure-leaves-pending-error");
        if a.ok {
            vassert!(ok_with::<M, _>(&r, a.out), "C17/labelled.never-changes-outputs");
        }
        vassert!(Offers::of(&s0, &[&a]).matches(&s), "C17/labelled.pending-error-position-and-merging-as-undecorated");
        // when the child's own failure is the pending error, it is described by the label as specified
        if a.offered {
            let wins = s0.alt.map(|x| a.fail_pos > x.0).unwrap_or(true);
            if wins {
                let (_, e) = alt.unwrap();
                vassert!(e.id == a.fail_id && e.start == a.fail_pos && e.end == a.fail_pos, "C17/labelled.span-of-the-error-unchanged");
                if a.fail_pos == s0.pos {
                    vcover!(true, "labelled: failure at the first token");
                    vassert!(e.labels == 1 && e.label_id == l && e.ctxs == 0, "C17/labelled.failure-at-first-token-lists-the-label-instead");
                } else if CTX {
                    vcover!(true, "labelled: failure further in, as context");
                    vassert!(e.labels == 0 && e.ctxs == 1 && e.ctx_id == l && e.ctx_start == s0.pos && e.ctx_end == a.fail_pos, "C17/labelled.failure-further-in-keeps-expectations-and-adds-context-span");
                } else {
                    vcover!(true, "labelled: failure further in");
                    vassert!(e.labels == 0 && e.ctxs == 0, "C17/labelled.failure-further-in-keeps-inner-expectations");
                }
            }
        }
    });
}
pub fn h_map_err<M: VMode, const WITH_STATE: bool>() {
    run::<u8, VErr, (), _>(|inp, s0| {
        let child = anyp::<SymIn<u8>, X<VErr>>(0);
        let r = if WITH_STATE {
            child
                .map_err_with_state(|mut e: VErr, sp: SimpleSpan<usize>, st: &mut VState| {
                    e.mapped = e.mapped.wrapping_add(1);
                    st.reg[0] = sp.start;
                    st.reg[1] = sp.end;
                    e
                })
                .gov::<M>(inp)
        } else {
            child
                .map_err(|mut e: VErr| {
                    e.mapped = e.mapped.wrapping_add(1);
                    e
                })
                .gov::<M>(inp)
        };
        let s = snap(inp);
        let alt = alt_full(inp);
        let a = lg(inp, 0);
        let v = unary_spec(&s0, &s, &a, r.is_ok(), false);
        vassert!(v[0], "C17/map_err.child-runs-once-from-entry-state");
        vassert!(v[1] && v[2], "C17/map_err.never-changes-acceptance-or-consumption");
        vassert!(v[3], "C17/map_err.never-changes-the-number-of-errors");
        vassert!(v[4], "C20/map_err.failure-leaves-pending-error");
        if a.ok {
            vcover!(s0.alt.is_some(), "map_err: child succeeds with an error pending");
            vassert!(ok_with::<M, _>(&r, a.out), "C17/map_err.never-changes-outputs");
        }
        vassert!(Offers::of(&s0, &[&a]).matches(&s), "C17/map_err.pending-error-position-and-merging-as-undecorated");
        if let Some((_, e)) = alt {
            if a.offered && s0.alt.map(|x| a.fail_pos > x.0).unwrap_or(true) {
                // the child's error is the pending one
                vassert!(e.id == a.fail_id && e.start == a.fail_pos && e.end == a.fail_pos, "C17/map_err.span-of-the-error-unchanged");
                if a.ok {
                    vassert!(e.mapped == 0, "C17/map_err.mapper-never-applied-on-success");
                } else {
                    vcover!(true, "map_err: child failure mapped");
                    vassert!(e.mapped == 1, "C17/map_err.mapper-applied-exactly-once-to-the-error-of-this-failure");
                }
            } else if e.merges == 0 {
                vassert!(e.mapped == 0, "C17/map_err.mapper-not-applied-to-errors-of-other-parsers");
            }
        }
    });
}

// ------------------------------------------------------------------------------------------ C18
/// with_state: every invocation runs the child on a fresh copy of the given state; the outer state
/// is left untouched. The child (slot 0) copies its log entry to the shared ghost log.
pub fn h_with_state<M: VMode>() {
    run::<u8, VS, (), _>(|inp, s0| {
        let mut shared = CallLog::default();
        let mut given = VState::new(s0.len);
        given.believed = ch::any_usize();
        given.ext = &mut shared;
        let g_believed = given.believed;
        let p = anyp_multi::<SymIn<u8>, X<VS>>(0, 2).with_state(given);
        let outer_before = inp.state.believed;
        let r1 = p.gov::<M>(inp);
        let first = shared;
        vassert!(first.called && first.entry_pos == s0.pos, "C18/with_state.child-runs-from-the-caller-position");
        vassert!(first.entry_believed == g_believed, "C18/with_state.child-starts-from-a-copy-of-the-given-state");
        vassert!(inp.state.believed == outer_before && !inp.state.log[0].called, "C18/with_state.outer-state-untouched");
        vassert!(r1.is_ok() == first.ok && snap(inp).pos == first.exit_pos, "C18/with_state.result-and-position-of-the-child");
        let s1 = snap(inp);
        let r2 = p.gov::<M>(inp);
        let second = shared;
        vcover!(first.ok && second.ok, "with_state: two invocations");
        vassert!(second.entry_pos == s1.pos && second.entry_believed == g_believed, "C18/with_state.fresh-copy-on-every-invocation");
        vassert!(inp.state.believed == outer_before, "C18/with_state.outer-state-untouched-after-repeated-use");
        let _ = r2;
    });
}

harnesses! {
    with_ctx_emit = h_with_ctx::<Emit>;
    with_ctx_check = h_with_ctx::<Check>;
    ctx_nearest_emit = h_ctx_nearest::<Emit>;
    ignore_with_ctx_emit = h_ctx_from_left::<Emit, false>;
    ignore_with_ctx_check = h_ctx_from_left::<Check, false>;
    then_with_ctx_emit = h_ctx_from_left::<Emit, true>;
    then_with_ctx_check = h_ctx_from_left::<Check, true>;
    map_ctx_emit = h_map_ctx::<Emit>;
    #[kani::unwind(4)]
    configure_just_seq_emit_b1 = h_configure_just_seq::<Emit>;
    configure_just_emit = h_configure_just::<Emit>;
    configure_just_check = h_configure_just::<Check>;
    #[kani::unwind(4)]
    nested_in_emit = h_nested_in::<Emit>;
    #[kani::unwind(4)]
    nested_in_check = h_nested_in::<Check>;
    labelled_emit = h_labelled::<Emit, false>;
    labelled_check = h_labelled::<Check, false>;
    #[kani::unwind(4)]
    labelled_ctx_emit = h_labelled::<Emit, true>;
    map_err_emit = h_map_err::<Emit, false>;
    map_err_check = h_map_err::<Check, false>;
    map_err_with_state_emit = h_map_err::<Emit, true>;
    with_state_emit = h_with_state::<Emit>;
    with_state_check = h_with_state::<Check>;
}
