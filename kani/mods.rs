pub mod h_comb {
    include!(concat!(env!("CHUMSKY_VERIF_DIR"), "/h_comb.rs"));
}
pub mod h_prim {
    include!(concat!(env!("CHUMSKY_VERIF_DIR"), "/h_prim.rs"));
}
pub mod h_comb2 {
    include!(concat!(env!("CHUMSKY_VERIF_DIR"), "/h_comb2.rs"));
}
pub mod h_iter {
    include!(concat!(env!("CHUMSKY_VERIF_DIR"), "/h_iter.rs"));
}
pub mod h_top {
    include!(concat!(env!("CHUMSKY_VERIF_DIR"), "/h_top.rs"));
}
pub mod h_top2 {
    include!(concat!(env!("CHUMSKY_VERIF_DIR"), "/h_top2.rs"));
}
pub mod h_inputref {
    include!(concat!(env!("CHUMSKY_VERIF_DIR"), "/h_inputref.rs"));
}
pub mod h_recover {
    include!(concat!(env!("CHUMSKY_VERIF_DIR"), "/h_recover.rs"));
}
pub mod h_pratt {
    include!(concat!(env!("CHUMSKY_VERIF_DIR"), "/h_pratt.rs"));
}
pub mod h_drop {
    include!(concat!(env!("CHUMSKY_VERIF_DIR"), "/h_drop.rs"));
}
pub mod h_wrap {
    include!(concat!(env!("CHUMSKY_VERIF_DIR"), "/h_wrap.rs"));
}
pub mod h_misc {
    include!(concat!(env!("CHUMSKY_VERIF_DIR"), "/h_misc.rs"));
}
pub mod h_misc2 {
    include!(concat!(env!("CHUMSKY_VERIF_DIR"), "/h_misc2.rs"));
}
pub mod h_input {
    include!(concat!(env!("CHUMSKY_VERIF_DIR"), "/h_input.rs"));
}
pub mod h_text {
    include!(concat!(env!("CHUMSKY_VERIF_DIR"), "/h_text.rs"));
}
pub mod h_iter2 {
    include!(concat!(env!("CHUMSKY_VERIF_DIR"), "/h_iter2.rs"));
}
pub mod h_clone {
    include!(concat!(env!("CHUMSKY_VERIF_DIR"), "/h_clone.rs"));
}
pub mod h_io {
    include!(concat!(env!("CHUMSKY_VERIF_DIR"), "/h_io.rs"));
}
pub mod h_err {
    include!(concat!(env!("CHUMSKY_VERIF_DIR"), "/h_err.rs"));
}
pub mod h_comp {
    include!(concat!(env!("CHUMSKY_VERIF_DIR"), "/h_comp.rs"));
}
pub mod h_arity {
    include!(concat!(env!("CHUMSKY_VERIF_DIR"), "/h_arity.rs"));
}
pub mod h_iter_t {
    include!(concat!(env!("CHUMSKY_VERIF_DIR"), "/h_iter_t.rs"));
}
pub mod h_input2 {
    include!(concat!(env!("CHUMSKY_VERIF_DIR"), "/h_input2.rs"));
}
pub mod h_pratt2 {
    include!(concat!(env!("CHUMSKY_VERIF_DIR"), "/h_pratt2.rs"));
}
pub mod h_extra {
    include!(concat!(env!("CHUMSKY_VERIF_DIR"), "/h_extra.rs"));
}
#[cfg(feature = "memoization")]
pub mod h_memo {
    include!(concat!(env!("CHUMSKY_VERIF_DIR"), "/h_memo.rs"));
}
#[cfg(feature = "memoization")]
pub mod h_memo2 {
    include!(concat!(env!("CHUMSKY_VERIF_DIR"), "/h_memo2.rs"));
}
pub fn register_all(r: &mut Vec<(&'static str, fn())>) {
    h_comb::register(r);
    h_prim::register(r);
    h_comb2::register(r);
    h_iter::register(r);
    h_top::register(r);
    h_text::register(r);
    h_input::register(r);
    h_misc::register(r);
    h_misc2::register(r);
    h_wrap::register(r);
    h_drop::register(r);
    h_pratt::register(r);
    h_recover::register(r);
    h_inputref::register(r);
    h_top2::register(r);
    h_err::register(r);
    h_io::register(r);
    h_clone::register(r);
    h_iter2::register(r);
    h_pratt2::register(r);
    h_input2::register(r);
    h_iter_t::register(r);
    h_arity::register(r);
    h_comp::register(r);
    h_extra::register(r);
    #[cfg(feature = "memoization")]
    h_memo::register(r);
    #[cfg(feature = "memoization")]
    h_memo2::register(r);
}
