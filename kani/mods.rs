pub mod h_comb {
    include!(concat!(env!("CHUMSKY_VERIF_DIR"), "/h_comb.rs"));
}
pub fn register_all(r: &mut Vec<(&'static str, fn())>) {
    h_comb::register(r);
}
