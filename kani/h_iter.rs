// @config debug_assertions=off
// Contracts of repetition: the loop-free step functions (`Repeated::next/next_cfg`,
// `SeparatedBy::next`, adaptor `next`s) are proved completely; the thin drivers that iterate a step
// function (`collect`, `foldl`, `foldr`, `Repeated::go`, ...) are checked with an iterator stub that
// yields a bounded number of items (harness names end in _b<bound>; never counted as proved).
// Built with debug assertions off: the #[track_caller] constructors are not supported by Kani.

use super::fw::*;
use super::h_comb::VEr;
use crate::combinator::RepeatedCfg;
use crate::container::Container;
use crate::prelude::*;
use crate::private::{Check, Emit, Mode};
use crate::{ConfigIterParser, IterParser, Parser};

fn item_of<M: VMode>(r: &Result<Option<M::Output<u16>>, ()>) -> (bool, bool, Option<u16>) {
    // (is_ok, yielded an item, the item in Emit mode)
    match r {
        Ok(Some(o)) => (true, true, M::peek(o)),
        Ok(None) => (true, false, None),
        Err(()) => (false, false, None),
    }
}

// ------------------------------------------------------------------------------ Repeated::next
/// `cfg`: bounds come from `configure()` (next_cfg) instead of the builder methods.
pub fn h_repeated_next<M: VMode, Er: VEr, const CFG: bool>() {
    run::<u8, Er, (), _>(|inp, s0| {
        let count0 = ch::any_usize();
        // state invariant of the iteration: `count` items were yielded, each consumed at least one token
        ch::assume(count0 <= s0.pos);
        // `!0` encodes "no cap", so a count of usize::MAX cannot be told from the cap; it is unreachable
        // (every item consumes a token and no input holds usize::MAX tokens)
        ch::assume(count0 < usize::MAX);
        let mut count = count0;
        let item = anyp_prog::<SymIn<u8>, X<Er>>(0);
        // bounds set on the builder
        let (b_lo, b_capped, b_hi) = (ch::any_usize(), ch::any_bool(), ch::any_usize());
        let mut p = item.repeated().at_least(b_lo);
        if b_capped {
            p = p.at_most(b_hi);
        }
        // the bounds in force: those of the builder, overridden one by one by the configuration where it
        // sets them (C15: "matches exactly as the statically configured parser with those settings")
        let (at_least, capped, cap);
        let r = if CFG {
            let (c_lo_set, c_lo, c_hi_set, c_hi) = (ch::any_bool(), ch::any_usize(), ch::any_bool(), ch::any_usize());
            let mut cfg = RepeatedCfg::default();
            if c_lo_set {
                cfg = cfg.at_least(c_lo);
            }
            if c_hi_set {
                cfg = cfg.at_most(c_hi);
            }
            vcover!(c_lo_set && !c_hi_set && b_capped, "repeated.next_cfg: minimum from the configuration, cap from the builder");
            vcover!(!c_lo_set && c_hi_set, "repeated.next_cfg: cap from the configuration, minimum from the builder");
            vcover!(c_hi_set && b_capped && c_hi > b_hi, "repeated.next_cfg: configured cap looser than the builder's");
            at_least = if c_lo_set { c_lo } else { b_lo };
            capped = c_hi_set || b_capped;
            cap = if c_hi_set { c_hi } else { b_hi };
            p.next_cfg::<M>(inp, &mut count, &cfg)
        } else {
            at_least = b_lo;
            capped = b_capped;
            cap = b_hi;
            p.next::<M>(inp, &mut count)
        };
        let s = snap(inp);
        let a = lg(inp, 0);
        let (ok, some, out) = item_of::<M>(&r);
        let at_cap = capped && count0 >= cap;
        if CFG {
            // C02: "the same bounds apply when the count comes from configure()"
            vassert2!(a.called != at_cap, "C15/configure_repeated.cap-in-force-is-the-configured-one-else-the-builders", "C02/configure_repeated.cap-in-force-is-the-configured-one-else-the-builders");
            if a.called && !a.ok {
                vassert2!(ok == (count0 >= at_least), "C15/configure_repeated.minimum-in-force-is-the-configured-one-else-the-builders", "C02/configure_repeated.minimum-in-force-is-the-configured-one-else-the-builders");
            }
        }
        if at_cap {
            vcover!(true, "repeated.next: at the cap");
            vassert!(ok && !some && !a.called, "C02/repeated.stops-at-at_most-without-trying-another-item");
            vassert!(s.pos == s0.pos && s.nsec == s0.nsec && s.alt == s0.alt && count == count0 && s.believed == s.pos, "C02/repeated.stopping-at-the-cap-changes-nothing");
            vassert_finding!(count0 >= at_least, "C02/repeated.stop-at-cap-only-when-minimum-reached");
        } else {
            vassert!(a.called && a.calls == 1 && a.entry_pos == s0.pos && a.entry_sec == s0.nsec && a.entry_believed == s0.pos, "C02/repeated.greedy-tries-another-item-from-current-state");
            if a.ok {
                vcover!(true, "repeated.next: item accepted");
                vassert!(ok && some, "C02/repeated.accepted-item-is-yielded");
                vassert!(out.map(|o| o == a.out).unwrap_or(true), "C02/repeated.yields-the-item-output");
                vassert!(count == count0 + 1, "C02/repeated.count-incremented-per-item");
                vassert!(s.pos == a.exit_pos && s.believed == s.pos, "C02/repeated.position-just-after-accepted-item");
                vassert!(SecSpec::pre(&s0).child(0, &a).holds(&s, Er::ZST), "C05/repeated.accepted-item-emissions-kept");
            } else {
                vassert!(count == count0, "C02/repeated.count-unchanged-when-item-fails");
                vassert!(ok == (count0 >= at_least), "C02/repeated.succeeds-iff-count-reached-at_least");
                vassert!(!some, "C02/repeated.no-item-when-item-fails");
                if ok {
                    vcover!(true, "repeated.next: stops, minimum reached");
                    vassert!(s.pos == s0.pos && s.believed == s.pos, "C02/repeated.position-just-after-last-accepted-item");
                    vassert!(SecSpec::pre(&s0).holds(&s, Er::ZST), "C05/repeated.abandoned-attempt-leaves-no-emissions");
                } else {
                    vcover!(true, "repeated.next: too few items");
                    vassert!(s.alt.is_some(), "C20/repeated.failure-leaves-pending-error");
                    vassert!(SecSpec::pre(&s0).prefix_of(&s, Er::ZST), "C05/repeated.failure-keeps-earlier-emissions");
                }
            }
        }
        if !Er::ZST {
            vassert!(Offers::of(&s0, &[&a]).matches(&s), "C06/repeated.pending-error-is-furthest-offer");
        }
    });
}

// --------------------------------------------------------------------------- SeparatedBy::next
pub fn h_sepby_next<M: VMode, Er: VEr>() {
    run::<u8, Er, (), _>(|inp, s0| {
        let at_least = ch::any_usize();
        let capped = ch::any_bool();
        let cap = ch::any_usize();
        let lead = ch::any_bool();
        let trail = ch::any_bool();
        let st0 = ch::any_usize();
        ch::assume(st0 <= s0.pos);
        ch::assume(st0 < usize::MAX);
        let mut st = st0;
        // slot 0 = separator, slot 1 = item
        let mut p = anyp_prog::<SymIn<u8>, X<Er>>(1).separated_by(anyp::<SymIn<u8>, X<Er>>(0)).at_least(at_least);
        if capped {
            p = p.at_most(cap);
        }
        if lead {
            p = p.allow_leading();
        }
        if trail {
            p = p.allow_trailing();
        }
        let r = p.next::<M>(inp, &mut st);
        let s = snap(inp);
        let (sep, it) = (lg(inp, 0), lg(inp, 1));
        let (ok, some, out) = item_of::<M>(&r);
        let pre = SecSpec::pre(&s0);
        if capped && st0 >= cap {
            vcover!(true, "separated_by.next: at the cap");
            vassert!(ok && !some && !sep.called && !it.called, "C02/separated_by.stops-at-at_most-without-trying-more");
            vassert!(s.pos == s0.pos && s.nsec == s0.nsec && s.alt == s0.alt && st == st0 && s.believed == s.pos, "C02/separated_by.stopping-at-the-cap-changes-nothing");
            vassert_finding!(st0 >= at_least, "C02/separated_by.stop-at-cap-only-when-minimum-reached");
        } else {
            // is a separator attempted before the item?
            let sep_expected = if st0 == 0 { lead } else { true };
            vassert!(sep.called == sep_expected, "C02/separated_by.separator-tried-only-between-items-or-as-allowed-leading");
            if sep.called {
                vassert!(sep.calls == 1 && sep.entry_pos == s0.pos && sep.entry_sec == s0.nsec && sep.entry_believed == s0.pos, "C02/separated_by.separator-runs-from-current-state");
            }
            let sep_used = sep.called && sep.ok;
            if st0 > 0 && !sep_used {
                // no separator after an accepted item: the list ends here
                vcover!(true, "separated_by.next: separator fails after an item");
                vassert!(!it.called, "C02/separated_by.no-item-without-separator");
                vassert!(!some && ok == (st0 >= at_least), "C02/separated_by.succeeds-iff-count-reached-at_least");
                vassert!(st == st0, "C02/separated_by.count-unchanged-when-list-ends");
                if ok {
                    vassert!(s.pos == s0.pos && s.believed == s.pos, "C02/separated_by.position-just-after-last-accepted-item");
                    vassert!(pre.holds(&s, Er::ZST), "C05/separated_by.abandoned-separator-leaves-no-emissions");
                }
            } else {
                let (ipos, isec) = if sep_used { (sep.exit_pos, s0.nsec + sep.emitted) } else { (s0.pos, s0.nsec) };
                vassert!(it.called && it.calls == 1 && it.entry_pos == ipos && it.entry_sec == isec && it.entry_believed == ipos, "C02/separated_by.item-runs-right-after-separator-or-at-start");
                let with_sep = if sep_used { pre.child(0, &sep) } else { pre };
                if it.ok {
                    vcover!(sep_used, "separated_by.next: separator and item accepted");
                    vassert!(ok && some && out.map(|o| o == it.out).unwrap_or(true), "C02/separated_by.accepted-item-is-yielded");
                    vassert!(st == st0 + 1, "C02/separated_by.count-incremented-per-item");
                    vassert!(s.pos == it.exit_pos && s.believed == s.pos, "C02/separated_by.position-just-after-accepted-item");
                    vassert!(with_sep.child(1, &it).holds(&s, Er::ZST), "C05/separated_by.separator-and-item-emissions-kept-in-order");
                } else {
                    vassert!(!some && ok == (st0 >= at_least), "C02/separated_by.succeeds-iff-count-reached-at_least");
                    vassert!(st == st0, "C02/separated_by.count-unchanged-when-list-ends");
                    if ok {
                        if st0 > 0 {
                            // a separator was consumed after the last item but no item follows
                            if trail {
                                vcover!(true, "separated_by.next: trailing separator kept");
                                vassert!(s.pos == sep.exit_pos && s.believed == s.pos, "C02/separated_by.trailing-separator-consumed-when-allowed");
                                vassert!(with_sep.holds(&s, Er::ZST), "C05/separated_by.kept-trailing-separator-emissions-kept-item-attempt-dropped");
                            } else {
                                vcover!(true, "separated_by.next: trailing separator given back");
                                vassert!(s.pos == s0.pos && s.believed == s.pos, "C02/separated_by.trailing-separator-not-consumed-unless-allowed");
                                vassert!(pre.holds(&s, Er::ZST), "C05/separated_by.abandoned-separator-and-item-leave-no-emissions");
                            }
                        } else if sep_used {
                            // a lone leading separator before zero items: the statement allows either outcome
                            vcover!(true, "separated_by.next: lone leading separator");
                            let kept = s.pos == sep.exit_pos && with_sep.holds(&s, Er::ZST);
                            let given_back = s.pos == s0.pos && pre.holds(&s, Er::ZST);
                            vassert!((kept || given_back) && s.believed == s.pos, "C02/separated_by.lone-leading-separator-kept-or-given-back-consistently");
                        } else {
                            vassert!(s.pos == s0.pos && s.believed == s.pos && pre.holds(&s, Er::ZST), "C02/separated_by.empty-list-consumes-nothing");
                        }
                    }
                }
            }
            if !ok {
                vcover!(true, "separated_by.next: too few items");
                vassert!(s.alt.is_some(), "C20/separated_by.failure-leaves-pending-error");
                vassert!(pre.prefix_of(&s, Er::ZST), "C05/separated_by.failure-keeps-earlier-emissions");
            }
        }
        if !Er::ZST {
            vassert!(Offers::of(&s0, &[&sep, &it]).matches(&s), "C06/separated_by.pending-error-is-furthest-offer");
        }
    });
}

// ------------------------------------------------------------------- adaptor steps over a stub
/// Transparent step adaptors: one `next` of the adaptor is one `next` of the wrapped iterable parser.
fn step_transparent(s0: &S0, s: &Snap, a: &CallLog, ok: bool, some: bool, zst: bool) -> bool {
    a.called
        && a.calls == 1
        && a.entry_pos == s0.pos
        && a.entry_sec == s0.nsec
        && ok == (a.kind != 2)
        && some == (a.kind == 0)
        && s.pos == a.exit_pos
        && s.believed == s.pos
        && SecSpec::pre(s0).child(0, a).holds(s, zst)
}
pub fn h_enumerate_next<M: VMode, Er: VEr>() {
    run::<u8, Er, (), _>(|inp, s0| {
        let p = anyit::<SymIn<u8>, X<Er>>(0, 2).enumerate();
        let idx0 = ch::any_usize();
        ch::assume(idx0 < usize::MAX);
        let mut st: (usize, usize) = (idx0, 0);
        let r: Result<Option<M::Output<(usize, u16)>>, ()> = p.next::<M>(inp, &mut st);
        let s = snap(inp);
        let a = lg(inp, 0);
        let (ok, some) = (r.is_ok(), matches!(r, Ok(Some(_))));
        vassert!(step_transparent(&s0, &s, &a, ok, some, Er::ZST), "C02/enumerate.step-is-one-step-of-the-inner-iteration");
        if let Ok(Some(o)) = &r {
            vcover!(true, "enumerate.next: item");
            vassert!(M::peek(o).map(|v| v == (idx0, a.out)).unwrap_or(true), "C02/enumerate.item-paired-with-its-index-in-order");
            vassert!(st.0 == idx0 + 1, "C02/enumerate.index-advances-by-one-per-item");
        }
        if !Er::ZST {
            vassert!(Offers::of(&s0, &[&a]).matches(&s), "C06/enumerate.pending-error-is-that-of-the-inner-step");
        }
    });
}
pub fn h_map_next<M: VMode, Er: VEr>() {
    run::<u8, Er, (), _>(|inp, s0| {
        let k = ch::any_u16();
        let p = crate::combinator::Map { parser: anyit::<SymIn<u8>, X<Er>>(0, 2), mapper: move |o: u16| o ^ k, phantom: crate::EmptyPhantom::<u16>::new() };
        let mut st: usize = 0;
        let r: Result<Option<M::Output<u16>>, ()> = IterParser::next::<M>(&p, inp, &mut st);
        let s = snap(inp);
        let a = lg(inp, 0);
        let (ok, some, out) = item_of::<M>(&r);
        vassert!(step_transparent(&s0, &s, &a, ok, some, Er::ZST), "C02/iter_map.step-is-one-step-of-the-inner-iteration");
        vcover!(some, "iter map.next: item");
        vassert!(out.map(|o| o == a.out ^ k).unwrap_or(true), "C02/iter_map.item-is-mapped");
    });
}
pub fn h_ornot_next<M: VMode, Er: VEr>() {
    run::<u8, Er, (), _>(|inp, s0| {
        // `x.or_not()` as an iterable parser yields zero or one item
        let p = anyp::<SymIn<u8>, X<Er>>(0).or_not();
        let done0 = ch::any_bool();
        let mut st: bool = done0;
        let r: Result<Option<M::Output<u16>>, ()> = IterParser::next::<M>(&p, inp, &mut st);
        let s = snap(inp);
        let a = lg(inp, 0);
        let (ok, some, out) = item_of::<M>(&r);
        vassert!(ok, "C02/or_not_iter.never-fails");
        if done0 {
            vcover!(true, "or_not.next: already done");
            vassert!(!some && !a.called && s.pos == s0.pos && s.nsec == s0.nsec, "C02/or_not_iter.at-most-one-item");
        } else {
            vassert!(a.called && a.calls == 1 && a.entry_pos == s0.pos && a.entry_sec == s0.nsec, "C02/or_not_iter.child-tried-once-from-current-state");
            vassert!(st, "C02/or_not_iter.done-after-first-step");
            vassert!(some == a.ok && out.map(|o| o == a.out).unwrap_or(true), "C02/or_not_iter.yields-child-output-iff-child-succeeds");
            if a.ok {
                vcover!(true, "or_not.next: item");
                vassert!(s.pos == a.exit_pos && SecSpec::pre(&s0).child(0, &a).holds(&s, Er::ZST), "C05/or_not_iter.kept-child-emissions-exact");
            } else {
                vcover!(true, "or_not.next: child fails");
                vassert!(s.pos == s0.pos && SecSpec::pre(&s0).holds(&s, Er::ZST), "C05/or_not_iter.abandoned-child-leaves-no-emissions");
            }
            vassert!(s.believed == s.pos, "C18/or_not_iter.inspector-at-position");
        }
    });
}

// ------------------------------------------------------------------------------------- drivers
/// A small by-value container: the drivers are generic in the container and cannot inspect it.
#[derive(Clone, Copy, Debug)]
pub struct VArr {
    pub n: usize,
    pub a: [u16; 4],
}
impl PartialEq for VArr {
    fn eq(&self, o: &VArr) -> bool {
        self.n == o.n && self.a[0] == o.a[0] && self.a[1] == o.a[1] && self.a[2] == o.a[2] && self.a[3] == o.a[3]
    }
}
impl Default for VArr {
    fn default() -> Self {
        VArr { n: 0, a: [0; 4] }
    }
}
impl Container<u16> for VArr {
    fn push(&mut self, item: u16) {
        if self.n < 4 {
            self.a[self.n] = item;
        }
        self.n += 1;
    }
}

/// The driver contract over the logged `next` calls of the iterator stub (entries `base..base+B`):
/// `next` is called from where the previous call stopped until it reports the end or fails, and not
/// again; the driver succeeds iff the iteration ended with "no more items"; the items are exactly the
/// yielded ones in order. Returns (obligations, number of items, items).
pub fn drive_spec<'p, Er: VEr>(inp: &mut IR<'p, u8, Er>, s0: &S0, start_pos: usize, start_sec: usize, base: usize, bound: usize, idslot: usize, spec0: SecSpec) -> ([bool; 4], usize, [u16; 4], bool, usize, SecSpec) {
    let mut v = [true; 4];
    let mut items = [0u16; 4];
    let mut n = 0usize;
    let mut pos = start_pos;
    let mut nsec = start_sec;
    let mut spec = spec0;
    let mut live = true;
    let mut ended_ok = false;
    let mut k = 0;
    while k < bound {
        let l = lg(inp, base + k);
        if live {
            if !(l.called && l.calls == 1 && l.entry_pos == pos && l.entry_sec == nsec && l.entry_believed == pos) {
                v[0] = false; // each step runs from where the previous one stopped
            }
            pos = l.exit_pos;
            nsec = nsec.wrapping_add(l.emitted);
            spec = spec.child(idslot, &l);
            if l.kind == 0 {
                if n < 4 {
                    items[n] = l.out;
                }
                n += 1;
            } else {
                live = false;
                ended_ok = l.kind == 1;
            }
        } else if l.called {
            v[1] = false; // no step after the iteration ended
        }
        k += 1;
    }
    v[2] = !live; // the harness bound was sufficient (stub ends within `bound` calls)
    let _ = s0;
    (v, n, items, ended_ok, pos, spec)
}

pub fn h_collect<M: VMode, Er: VEr, const B: usize>() {
    run::<u8, Er, (), _>(|inp, s0| {
        let p = anyit::<SymIn<u8>, X<Er>>(0, B).collect::<VArr>();
        let r = p.gov::<M>(inp);
        let s = snap(inp);
        let (v, n, items, ended_ok, pos, spec) = drive_spec::<Er>(inp, &s0, s0.pos, s0.nsec, 0, B, 0, SecSpec::pre(&s0));
        vassert!(v[2], "FW/driver-bound-sufficient");
        vassert!(v[0], "C02/collect.each-step-continues-where-the-previous-stopped");
        vassert!(v[1], "C02/collect.no-step-after-the-iteration-ended");
        vassert!(r.is_ok() == ended_ok, "C02/collect.succeeds-iff-iteration-ends-normally");
        vassert!(inp.state.reg[7] == 1, "C02/collect.iteration-started-exactly-once");
        if let Ok(o) = &r {
            vcover!(n == B - 1, "collect: maximal number of items");
            vcover!(n == 0, "collect: no items");
            let want = {
                let mut w = VArr::default();
                let mut k = 0;
                while k < 4 {
                    if k < n {
                        w.push(items[k]);
                    }
                    k += 1;
                }
                w
            };
            vassert!(M::peek(o).map(|c| c == want).unwrap_or(true), "C02/collect.container-holds-exactly-the-items-in-input-order");
            vassert!(s.pos == pos && s.believed == s.pos, "C02/collect.position-where-the-iteration-ended");
            vassert!(spec.holds(&s, Er::ZST), "C05/collect.emissions-of-all-steps-in-order");
        } else {
            vcover!(true, "collect: iteration fails");
            vassert!(s.alt.is_some(), "C20/collect.failure-leaves-pending-error");
        }
    });
}

pub fn h_count<M: VMode, Er: VEr, const B: usize>() {
    run::<u8, Er, (), _>(|inp, s0| {
        let p = anyit::<SymIn<u8>, X<Er>>(0, B).count();
        let r = p.gov::<M>(inp);
        let (v, n, _items, ended_ok, _pos, _spec) = drive_spec::<Er>(inp, &s0, s0.pos, s0.nsec, 0, B, 0, SecSpec::pre(&s0));
        vassert!(v[2], "FW/driver-bound-sufficient");
        vassert!(r.is_ok() == ended_ok, "C02/count.succeeds-iff-iteration-ends-normally");
        if let Ok(o) = &r {
            vcover!(n == B - 1, "count: maximal number of items");
            vassert!(M::peek(o).map(|c| c == n).unwrap_or(true), "C02/count.is-the-number-of-items");
        }
    });
}

pub fn h_foldl<M: VMode, Er: VEr, const B: usize>() {
    run::<u8, Er, (), _>(|inp, s0| {
        // slot 0 = initial value parser; iterator calls logged from slot 1
        let p = anyp::<SymIn<u8>, X<Er>>(0).foldl(anyit::<SymIn<u8>, X<Er>>(1, B), |acc: u16, b: u16| acc.wrapping_mul(31).wrapping_add(b));
        let r = p.gov::<M>(inp);
        let s = snap(inp);
        let a = lg(inp, 0);
        vassert!(a.called && a.calls == 1 && a.entry_pos == s0.pos && a.entry_sec == s0.nsec, "C02/foldl.initial-value-parsed-first-from-entry");
        if !a.ok {
            vcover!(true, "foldl: initial value fails");
            vassert!(r.is_err() && !lg(inp, 1).called, "C02/foldl.fails-when-initial-value-fails");
        } else {
            let (v, n, items, ended_ok, pos, spec) = drive_spec::<Er>(inp, &s0, a.exit_pos, s0.nsec + a.emitted, 1, B, 1, SecSpec::pre(&s0).child(0, &a));
            vassert!(v[2], "FW/driver-bound-sufficient");
            vassert!(v[0] && v[1], "C02/foldl.steps-run-in-sequence-until-the-end");
            vassert!(r.is_ok() == ended_ok, "C02/foldl.succeeds-iff-iteration-ends-normally");
            if let Ok(o) = &r {
                vcover!(n == B - 1, "foldl: maximal number of items");
                let mut acc = a.out;
                let mut k = 0;
                while k < 4 {
                    if k < n {
                        acc = acc.wrapping_mul(31).wrapping_add(items[k]);
                    }
                    k += 1;
                }
                vassert!(M::peek(o).map(|x| x == acc).unwrap_or(true), "C02/foldl.folds-items-from-the-left-in-input-order");
                vassert!(s.pos == pos && s.believed == s.pos, "C02/foldl.position-where-the-iteration-ended");
                vassert!(spec.holds(&s, Er::ZST), "C05/foldl.emissions-of-all-steps-in-order");
            }
        }
        if r.is_err() {
            vassert!(s.alt.is_some(), "C20/foldl.failure-leaves-pending-error");
        }
    });
}

pub fn h_foldl_with<M: VMode, Er: VEr, const B: usize>() {
    run::<u8, Er, (), _>(|inp, s0| {
        let p = anyp::<SymIn<u8>, X<Er>>(0).foldl_with(anyit::<SymIn<u8>, X<Er>>(1, B), |acc: u16, b: u16, e| {
            let sp = e.span();
            let st = e.state();
            // every callback must see a span from the start of the whole fold to the current position,
            // and a state that reflects exactly the tokens before the current position
            if sp.start != st.reg[5] || sp.end != st.believed {
                st.flag[1] = true;
            }
            st.reg[6] = st.reg[6].wrapping_add(1);
            acc.wrapping_mul(31).wrapping_add(b)
        });
        inp.state.reg[5] = s0.pos;
        let r = p.gov::<M>(inp);
        let s = snap(inp);
        let a = lg(inp, 0);
        if a.ok {
            let (v, n, items, ended_ok, pos, _spec) = drive_spec::<Er>(inp, &s0, a.exit_pos, s0.nsec + a.emitted, 1, B, 1, SecSpec::pre(&s0).child(0, &a));
            vassert!(v[2], "FW/driver-bound-sufficient");
            vassert!(r.is_ok() == ended_ok, "C02/foldl_with.succeeds-iff-iteration-ends-normally");
            vassert!(!inp.state.flag[1], "C07/foldl_with.callback-span-runs-from-fold-start-to-current-position");
            if let Ok(o) = &r {
                vcover!(n == B - 1, "foldl_with: maximal number of items");
                let mut acc = a.out;
                let mut k = 0;
                while k < 4 {
                    if k < n {
                        acc = acc.wrapping_mul(31).wrapping_add(items[k]);
                    }
                    k += 1;
                }
                vassert!(M::peek(o).map(|x| x == acc).unwrap_or(true), "C02/foldl_with.folds-items-from-the-left-in-input-order");
                if M::EMIT {
                    vassert!(inp.state.reg[6] == n, "C02/foldl_with.callback-runs-once-per-item");
                }
                vassert!(s.pos == pos && s.believed == s.pos, "C18/foldl_with.inspector-at-position");
            }
        } else {
            vassert!(r.is_err(), "C02/foldl_with.fails-when-initial-value-fails");
        }
    });
}

pub fn h_foldr<M: VMode, Er: VEr, const B: usize>() {
    run::<u8, Er, (), _>(|inp, s0| {
        // iterator calls logged from slot 0; final value parser in slot B
        let p = anyit::<SymIn<u8>, X<Er>>(0, B).foldr(anyp::<SymIn<u8>, X<Er>>(B), |a: u16, acc: u16| acc.wrapping_mul(31).wrapping_add(a));
        let r = p.gov::<M>(inp);
        let s = snap(inp);
        let (v, n, items, ended_ok, pos, spec) = drive_spec::<Er>(inp, &s0, s0.pos, s0.nsec, 0, B, 0, SecSpec::pre(&s0));
        let b = lg(inp, B);
        vassert!(v[2], "FW/driver-bound-sufficient");
        vassert!(v[0] && v[1], "C02/foldr.steps-run-in-sequence-until-the-end");
        if !ended_ok {
            vcover!(true, "foldr: iteration fails");
            vassert!(r.is_err() && !b.called, "C02/foldr.fails-when-iteration-fails");
        } else {
            vassert!(b.called && b.calls == 1 && b.entry_pos == pos, "C02/foldr.final-value-parsed-after-the-items");
            vassert!(r.is_ok() == b.ok, "C02/foldr.succeeds-iff-final-value-parses");
            if let Ok(o) = &r {
                vcover!(n == B - 1, "foldr: maximal number of items");
                let mut acc = b.out;
                let mut k = 4;
                while k > 0 {
                    k -= 1;
                    if k < n {
                        acc = acc.wrapping_mul(31).wrapping_add(items[k]);
                    }
                }
                vassert!(M::peek(o).map(|x| x == acc).unwrap_or(true), "C02/foldr.folds-items-from-the-right");
                vassert!(s.pos == b.exit_pos && s.believed == s.pos, "C02/foldr.position-after-final-value");
                vassert!(spec.child(B, &b).holds(&s, Er::ZST), "C05/foldr.emissions-of-all-steps-in-order");
            }
        }
        if r.is_err() {
            vassert!(s.alt.is_some(), "C20/foldr.failure-leaves-pending-error");
        }
    });
}

/// `Repeated` used directly as a parser (no collect): same acceptance / position / emissions as the
/// counted iteration. `fast`: no bounds (the separate unbounded loop in `Repeated::go`).
pub fn h_repeated_go<M: VMode, Er: VEr, const B: usize, const FAST: bool>() {
    run::<u8, Er, (), _>(|inp, s0| {
        let at_least = if FAST { 0 } else { ch::below(3) };
        let capped = !FAST && ch::any_bool();
        let cap = ch::below(3);
        if !FAST {
            ch::assume(at_least > 0 || capped);
            // the empty range at_least > at_most is the corner reported by the step contract
            ch::assume(!capped || at_least <= cap);
        }
        // the item stub is called repeatedly: call k logged in slot k
        let mut item = anyp_multi::<SymIn<u8>, X<Er>>(0, B);
        item.progress = true;
        item.bounded = true;
        let mut p = item.repeated().at_least(at_least);
        if capped {
            p = p.at_most(cap);
        }
        let r = p.gov::<M>(inp);
        let s = snap(inp);
        // reference: greedy iteration over the logged item attempts
        let mut pos = s0.pos;
        let mut nsec = s0.nsec;
        let mut spec = SecSpec::pre(&s0);
        let mut n = 0usize;
        let mut live = true;
        let mut chain = true;
        let mut k = 0;
        while k < B {
            let l = lg(inp, k);
            let want_call = live && !(capped && n >= cap);
            if want_call {
                if !(l.called && l.calls == 1 && l.entry_pos == pos && l.entry_sec == nsec && l.entry_believed == pos) {
                    chain = false;
                }
                if l.ok {
                    pos = l.exit_pos;
                    nsec = nsec.wrapping_add(l.emitted);
                    spec = spec.child(0, &l);
                    n += 1;
                } else {
                    live = false;
                }
            } else {
                if l.called {
                    chain = false;
                }
                live = false;
            }
            k += 1;
        }
        vassert!(!live, "FW/driver-bound-sufficient");
        ch::assume(!live);
        vassert!(chain, "C02/repeated_go.greedy-item-attempts-in-sequence-stopping-at-first-failure-or-cap");
        vassert!(r.is_ok() == (n >= at_least), "C02/repeated_go.succeeds-iff-count-within-bounds");
        if r.is_ok() {
            vcover!(n == B - 1, "repeated.go: maximal number of items");
            vcover!(n == 0, "repeated.go: no items");
            vassert!(s.pos == pos && s.believed == s.pos, "C02/repeated_go.position-just-after-last-accepted-item");
            vassert!(spec.holds(&s, Er::ZST), "C05/repeated_go.accepted-items-emissions-only");
        } else {
            vcover!(true, "repeated.go: too few items");
            vassert!(s.alt.is_some(), "C20/repeated_go.failure-leaves-pending-error");
        }
    });
}

/// `SeparatedBy` used directly as a parser (no collect): the reference is the separator/item state
/// machine of the statement run over the logged attempts (items in slots 0..3, separators in 3..6).
pub fn h_sepby_go<M: VMode, Er: VEr, const R: usize>() {
    run::<u8, Er, (), _>(|inp, s0| {
        let at_least = ch::below(2);
        let capped = ch::any_bool();
        let cap = ch::below(2);
        ch::assume(!capped || at_least <= cap);
        let lead = ch::any_bool();
        let trail = ch::any_bool();
        let mut item = anyp_multi::<SymIn<u8>, X<Er>>(0, R);
        item.progress = true;
        item.bounded = true;
        let sep = anyp_multi::<SymIn<u8>, X<Er>>(3, R);
        let mut p = item.separated_by(sep).at_least(at_least);
        if capped {
            p = p.at_most(cap);
        }
        if lead {
            p = p.allow_leading();
        }
        if trail {
            p = p.allow_trailing();
        }
        let r = p.gov::<M>(inp);
        let s = snap(inp);
        // reference run
        let mut pos = s0.pos;
        let mut nsec = s0.nsec;
        let mut spec = SecSpec::pre(&s0);
        let mut n = 0usize; // accepted items
        let mut ic = 0usize; // item attempts
        let mut sc = 0usize; // separator attempts
        let mut chain = true;
        let mut done = false;
        let mut ok = false;
        let mut either: Option<(usize, SecSpec)> = None; // alternative end state where the statement is silent
        let mut round = 0;
        while round < R {
            if !done {
                if capped && n >= cap {
                    done = true;
                    ok = true;
                } else {
                    let before = (pos, nsec, spec);
                    let mut sep_used = false;
                    let mut stop = false;
                    if (n == 0 && lead) || n > 0 {
                        let l = lg(inp, 3 + sc);
                        sc += 1;
                        if !(l.called && l.calls == 1 && l.entry_pos == pos && l.entry_sec == nsec && l.entry_believed == pos) {
                            chain = false;
                        }
                        if l.ok {
                            sep_used = true;
                            pos = l.exit_pos;
                            nsec = nsec.wrapping_add(l.emitted);
                            spec = spec.child(3, &l);
                        } else if n > 0 {
                            stop = true; // list ends: no separator after an item
                        }
                    }
                    if stop {
                        done = true;
                        ok = n >= at_least;
                    } else {
                        let l = lg(inp, ic);
                        ic += 1;
                        if !(l.called && l.calls == 1 && l.entry_pos == pos && l.entry_sec == nsec && l.entry_believed == pos) {
                            chain = false;
                        }
                        if l.ok {
                            n += 1;
                            pos = l.exit_pos;
                            nsec = nsec.wrapping_add(l.emitted);
                            spec = spec.child(0, &l);
                        } else {
                            done = true;
                            ok = n >= at_least;
                            let after_sep = (pos, nsec, spec);
                            // give the separator back unless a trailing one is allowed
                            if !(sep_used && trail) {
                                pos = before.0;
                                nsec = before.1;
                                spec = before.2;
                            }
                            if sep_used && n == 0 {
                                // lone leading separator: kept or given back, both accepted
                                either = Some(if trail { (before.0, before.2) } else { (after_sep.0, after_sep.2) });
                            }
                        }
                    }
                }
            }
            round += 1;
        }
        vassert!(done, "FW/driver-bound-sufficient");
        ch::assume(done);
        // attempts beyond the reference run must not have happened
        let extra_item = ic < R && lg(inp, ic).called;
        let extra_sep = sc < R && lg(inp, 3 + sc).called;
        vassert!(chain && !extra_item && !extra_sep, "C02/separated_by_go.attempts-follow-the-separator-item-state-machine");
        vassert!(r.is_ok() == ok, "C02/separated_by_go.succeeds-iff-count-within-bounds");
        if r.is_ok() {
            vcover!(n == R - 1, "separated_by.go: maximal number of items");
            vcover!(n == 0, "separated_by.go: no items");
            let main = s.pos == pos && spec.holds(&s, Er::ZST);
            let alt = match either {
                Some((p2, sp2)) => s.pos == p2 && sp2.holds(&s, Er::ZST),
                None => false,
            };
            vassert!((main || alt) && s.believed == s.pos, "C02/separated_by_go.position-and-emissions-of-accepted-items-and-separators-only");
        } else {
            vcover!(true, "separated_by.go: too few items");
            vassert!(s.alt.is_some(), "C20/separated_by_go.failure-leaves-pending-error");
        }
    });
}

harnesses! {
    repeated_next_emit = h_repeated_next::<Emit, VS, false>;
    repeated_next_check = h_repeated_next::<Check, VS, false>;
    repeated_next_cfg_emit = h_repeated_next::<Emit, VS, true>;
    repeated_next_cfg_check = h_repeated_next::<Check, VS, true>;
    sepby_next_emit = h_sepby_next::<Emit, VS>;
    sepby_next_check = h_sepby_next::<Check, VS>;
    enumerate_next_emit = h_enumerate_next::<Emit, VS>;
    enumerate_next_check = h_enumerate_next::<Check, VS>;
    map_next_emit = h_map_next::<Emit, VS>;
    ornot_next_emit = h_ornot_next::<Emit, VS>;
    ornot_next_check = h_ornot_next::<Check, VS>;
    #[kani::unwind(5)]
    collect_emit_b3 = h_collect::<Emit, VS, 3>;
    #[kani::unwind(5)]
    collect_check_b3 = h_collect::<Check, VS, 3>;
    #[kani::unwind(5)]
    count_emit_b3 = h_count::<Emit, VS, 3>;
    #[kani::unwind(5)]
    foldl_emit_b3 = h_foldl::<Emit, VS, 3>;
    #[kani::unwind(5)]
    foldl_check_b3 = h_foldl::<Check, VS, 3>;
    #[kani::unwind(5)]
    foldl_with_emit_b3 = h_foldl_with::<Emit, VS, 3>;
    #[kani::unwind(5)]
    foldr_emit_b3 = h_foldr::<Emit, VS, 3>;
    #[kani::unwind(5)]
    foldr_check_b3 = h_foldr::<Check, VS, 3>;
    #[kani::unwind(5)]
    repeated_go_fast_emit_b3 = h_repeated_go::<Emit, VS, 3, true>;
    #[kani::unwind(5)]
    repeated_go_fast_check_b3 = h_repeated_go::<Check, VS, 3, true>;
    #[kani::unwind(5)]
    repeated_go_counted_emit_b3 = h_repeated_go::<Emit, VS, 3, false>;
    #[kani::unwind(5)]
    repeated_go_counted_check_b3 = h_repeated_go::<Check, VS, 3, false>;
    #[kani::unwind(4)]
    sepby_go_emit_b2 = h_sepby_go::<Emit, VS, 2>;
    #[kani::unwind(4)]
    sepby_go_check_b2 = h_sepby_go::<Check, VS, 2>;
    #[kani::unwind(5)]
    sepby_go_emit_b3_t = h_sepby_go::<Emit, VS, 3>;
}
