// Contracts of the top-level entry points (`parse_with_state`, `check_with_state`, `lazy`) and of the
// `ParseResult` accessors: the result contract of C03, the fresh per-parse state of C13 and the
// final inspector state of C18. The grammar is a contract stub; the input has symbolic length.

use super::fw::*;
use crate::prelude::*;
use crate::private::{Check, Emit, Mode};
use crate::{ParseResult, Parser};

/// What the two entry points have in common, given the result parts.
fn top_contract(name_check: bool, len: usize, st: &VState, has_out: bool, out_ok: bool, errs: &[VS]) {
    let a = st.log[0];
    vassert!(a.called && a.calls == 1, "C03/parse.grammar-runs-exactly-once");
    vassert!(a.entry_pos == 0 && a.entry_sec == 0 && !a.entry_alt_some && a.entry_believed == 0, "C13/parse.starts-from-a-fresh-per-parse-state");
    let whole = a.ok && a.exit_pos == len;
    vassert!(has_out == whole, "C03/parse.output-iff-grammar-matched-the-entire-input");
    if has_out {
        vcover!(true, "parse: output");
        vassert!(out_ok, "C03/parse.output-is-the-grammar-output");
        vassert!(errs.len() == a.emitted, "C03/parse.errors-are-exactly-the-emitted-ones");
        vassert!(st.believed == len, "C18/parse.final-state-reflects-the-whole-input");
    } else {
        vcover!(a.ok, "parse: trailing input rejected");
        vcover!(!a.ok, "parse: grammar fails");
        vassert!(errs.len() >= 1, "C03/parse.no-output-implies-at-least-one-error");
        // the last error is the primary one: the furthest failure (the grammar's own offer or the
        // end-of-input expectation at the position the grammar stopped)
        // (reading the error buffer is out of CBMC's reach here: checked natively only, see DESIGN 3.3)
        #[cfg(not(kani))]
        {
        let last = errs[errs.len() - 1];
        let want_stub = if !a.ok {
            true
        } else if a.offered && a.fail_pos >= a.exit_pos {
            true
        } else {
            false
        };
        vassert!(if want_stub { last.id == a.fail_id } else { last.id == 0 }, "C06/parse.primary-error-is-the-furthest-failure");
        }
        if a.ok {
            vassert!(errs.len() == a.emitted + 1, "C03/parse.errors-are-emitted-ones-then-the-primary");
        }
    }
    let _ = name_check;
}

pub fn h_parse() {
    let len = ch::any_usize();
    let mut st = VState::new(len);
    let g = anyp::<SymIn<u8>, X<VS>>(0);
    let r: ParseResult<u16, VS> = g.parse_with_state(SymIn::new(len), &mut st);
    let has_out = r.has_output();
    let out_ok = r.output().map(|o| *o == st.log[0].out).unwrap_or(false);
    let errs = r.into_errors();
    top_contract(false, len, &st, has_out, out_ok, &errs);
}
pub fn h_check() {
    let len = ch::any_usize();
    let mut st = VState::new(len);
    let g = anyp::<SymIn<u8>, X<VS>>(0);
    let r: ParseResult<(), VS> = g.check_with_state(SymIn::new(len), &mut st);
    let has_out = r.has_output();
    let errs = r.into_errors();
    top_contract(true, len, &st, has_out, true, &errs);
}

/// The entry points against a child that may fail WITHOUT leaving a pending error (such parsers exist:
/// `collect_exactly` at its bound, C20 finding): the result contract of C03 ("no output implies an error")
/// and totality (C20: no panic) must hold regardless - that is what the placeholder error is for.
pub fn h_top_weak_child<Er: VE + crate::error::Error<'static, SymIn<u8>>, const CHECK: bool>() {
    let len = ch::any_usize();
    let mut st = VState::new(len);
    st.silent_fail = true;
    let g = anyp::<SymIn<u8>, X<Er>>(0);
    let (has_out, nerr) = if CHECK {
        let r: ParseResult<(), Er> = g.check_with_state(SymIn::new(len), &mut st);
        let h = r.has_output();
        (h, r.into_errors().len())
    } else {
        let r: ParseResult<u16, Er> = g.parse_with_state(SymIn::new(len), &mut st);
        let h = r.has_output();
        (h, r.into_errors().len())
    };
    let a = st.log[0];
    vcover!(!a.ok && !a.offered, "parse: grammar fails without leaving a pending error");
    vassert!(has_out == (a.ok && a.exit_pos == len), "C03/parse.output-iff-grammar-matched-the-entire-input");
    if !has_out {
        vassert!(nerr >= 1, "C03/parse.no-output-implies-at-least-one-error");
        vassert!(nerr == a.emitted + 1, "C03/parse.errors-are-emitted-ones-then-the-primary");
    } else {
        vassert!(nerr == a.emitted, "C03/parse.errors-are-exactly-the-emitted-ones");
    }
}

/// `ParseResult` accessors over every combination of output presence and error count.
pub fn h_parse_result() {
    let out: Option<u16> = if ch::any_bool() { Some(ch::any_u16()) } else { None };
    let n = ch::below(2);
    let mut errs: Vec<VS> = Vec::new();
    if n >= 1 {
        errs.push(VS { id: 1, merges: 0, merged_id: 0 });
    }
    if n >= 2 {
        errs.push(VS { id: 2, merges: 0, merged_id: 0 });
    }
    let r = ParseResult::new(out, errs);
    vassert!(r.has_output() == out.is_some(), "C03/result.has_output-iff-output-present");
    vassert!(r.has_errors() == (n > 0), "C03/result.has_errors-iff-error-list-non-empty");
    vassert!(r.output().copied() == out, "C03/result.output-is-the-output");
    vassert!(r.errors().len() == n, "C03/result.errors-lists-every-error");
    let ok = r.clone().into_result();
    vcover!(ok.is_ok(), "result: converts to Ok");
    vcover!(n > 0 && out.is_some(), "result: output with errors");
    vassert!(ok.is_ok() == (n == 0 && out.is_some()), "C03/result.into_result-is-ok-iff-no-errors-and-an-output");
    match ok {
        Ok(v) => vassert!(Some(v) == out, "C03/result.into_result-ok-carries-the-output"),
        Err(e) => vassert!(e.len() == n, "C03/result.into_result-err-carries-every-error"),
    }
    let (o2, e2) = r.into_output_errors();
    vassert!(o2 == out && e2.len() == n, "C03/result.into_output_errors-returns-both-parts");
}

harnesses! {
    #[kani::unwind(4)]
    parse_with_state = h_parse;
    #[kani::unwind(4)]
    check_with_state_check = h_check;
    #[kani::unwind(4)]
    parse_weak_child = h_top_weak_child::<VS, false>;
    #[kani::unwind(4)]
    check_weak_child_check = h_top_weak_child::<VS, true>;
    #[kani::unwind(4)]
    parse_weak_child_zst = h_top_weak_child::<VZ, false>;
    #[kani::unwind(4)]
    check_weak_child_check_zst = h_top_weak_child::<VZ, true>;
    #[kani::unwind(4)]
    parse_result = h_parse_result;
}
