// Entry point of the harness sources; compiled as `chumsky::input::verif` via the cfg hook.
// Every file is pulled in with include! so that all sources stay under /verif.

#[cfg(kani)]
macro_rules! vassert {
    ($c:expr, $m:expr) => {
        kani::assert($c, $m)
    };
}
#[cfg(not(kani))]
macro_rules! vassert {
    ($c:expr, $m:expr) => {
        if !($c) {
            crate::input::verif::native::fail($m)
        }
    };
}
#[cfg(kani)]
macro_rules! vcover {
    ($c:expr, $m:expr) => {
        kani::cover($c, $m)
    };
}
#[cfg(not(kani))]
macro_rules! vcover {
    ($c:expr, $m:expr) => {
        if $c {
            crate::input::verif::native::cover($m)
        }
    };
}
/// Straight-line repetition of a block (keeps harness-internal loops out of the unwinding bound).
macro_rules! unroll {
    ($k:ident in [$($v:literal),*] $body:block) => {
        $( { let $k: usize = $v; $body } )*
    };
}
/// Declares harnesses: a `#[kani::proof]` per entry under Kani, and a registry entry for the native
/// replay driver.
macro_rules! harnesses {
    ($( $(#[$a:meta])* $name:ident = $f:expr; )*) => {
        #[cfg(kani)]
        mod proofs {
            use super::*;
            $(
                #[kani::proof]
                $(#[$a])*
                fn $name() { let f: fn() = $f; f(); }
            )*
        }
        pub fn register(r: &mut Vec<(&'static str, fn())>) {
            $( r.push((stringify!($name), $f)); )*
        }
    };
}

pub mod fw {
    include!(concat!(env!("CHUMSKY_VERIF_DIR"), "/fw.rs"));
}
#[cfg(not(kani))]
pub mod native {
    include!(concat!(env!("CHUMSKY_VERIF_DIR"), "/native.rs"));
}
include!(concat!(env!("CHUMSKY_VERIF_DIR"), "/mods.rs"));
