// Entry point of the harness sources; compiled as `chumsky::input::verif` via the cfg hook.
// Every file is pulled in with include! so that all sources stay under /verif.

// Obligations. Under Kani a failed `kani::assert` is assumed to hold afterwards, which would let the first
// failing obligation of a harness hide every later one (possibly of another property). Each obligation is
// therefore guarded by its own fresh non-deterministic choice: where the choice is `false` nothing is assumed
// and the run goes on, so every obligation is decided on its own. Natively a failed obligation is recorded
// and the run goes on as well.
#[cfg(kani)]
macro_rules! vassert {
    ($c:expr, $m:expr) => {{
        let vassert_cond: bool = $c;
        if kani::any::<bool>() {
            kani::assert(vassert_cond, $m);
        }
    }};
}
#[cfg(not(kani))]
macro_rules! vassert {
    ($c:expr, $m:expr) => {
        if !($c) {
            crate::input::verif::native::fail($m)
        }
    };
}
/// One condition that is an obligation of two properties.
macro_rules! vassert2 {
    ($c:expr, $m1:expr, $m2:expr) => {{
        let vassert2_cond: bool = $c;
        vassert!(vassert2_cond, $m1);
        vassert!(vassert2_cond, $m2);
    }};
}
/// An obligation that is a recorded finding on the pinned tree (known_findings.json): it is checked, and the
/// rest of the contract is then checked for the behaviours where it holds.
macro_rules! vassert_finding {
    ($c:expr, $m:expr) => {{
        let vassert_f_cond: bool = $c;
        vassert!(vassert_f_cond, $m);
        crate::input::verif::fw::ch::assume(vassert_f_cond);
    }};
}
#[cfg(kani)]
macro_rules! vcover {
    ($c:expr, $m:expr) => {
        kani::cover($c, $m)
    };
}
#[cfg(not(kani))]
macro_rules! vcover {
    ($c:expr, $m:expr) => {
        if $c {
            crate::input::verif::native::cover($m)
        }
    };
}
/// Straight-line repetition of a block (keeps harness-internal loops out of the unwinding bound).
macro_rules! unroll {
    ($k:ident in [$($v:literal),*] $body:block) => {
        $( { let $k: usize = $v; $body } )*
    };
}
/// Declares harnesses: a `#[kani::proof]` per entry under Kani, and a registry entry for the native
/// replay driver.
macro_rules! harnesses {
    ($( $(#[$a:meta])* $name:ident = $f:expr; )*) => {
        #[cfg(kani)]
        mod proofs {
            use super::*;
            $(
                #[kani::proof]
                $(#[$a])*
                fn $name() { let f: fn() = $f; f(); }
            )*
        }
        pub fn register(r: &mut Vec<(&'static str, fn())>) {
            $( r.push((stringify!($name), $f)); )*
        }
    };
}

pub mod fw {
    include!(concat!(env!("CHUMSKY_VERIF_DIR"), "/fw.rs"));
}
#[cfg(not(kani))]
pub mod native {
    include!(concat!(env!("CHUMSKY_VERIF_DIR"), "/native.rs"));
}
include!(concat!(env!("CHUMSKY_VERIF_DIR"), "/mods.rs"));
