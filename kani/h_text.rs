// @config debug_assertions=off
// C14: the character classes (full domain of u8 / char, loop-free: complete) and the text parsers over
// the symbolic text input. Parsers built on `repeated()` are loops: their harnesses bound the number of
// tokens left in the input (names end in _b<k>); `newline()` is loop-free and complete.

use super::fw::*;
use crate::prelude::*;
use crate::private::{Check, Emit, Mode};
use crate::text::{self, Char};
use crate::Parser;

fn digit_spec(c: u32, radix: u32) -> bool {
    // value of an ASCII digit/letter, as the statement defines radix-r digits
    let v = if c >= '0' as u32 && c <= '9' as u32 {
        c - '0' as u32
    } else if c >= 'a' as u32 && c <= 'z' as u32 {
        c - 'a' as u32 + 10
    } else if c >= 'A' as u32 && c <= 'Z' as u32 {
        c - 'A' as u32 + 10
    } else {
        99
    };
    v < radix
}
fn newline_spec(c: u32) -> bool {
    c == 0x0A || c == 0x0D || c == 0x0B || c == 0x0C || c == 0x85 || c == 0x2028 || c == 0x2029
}

/// Unicode White_Space (what `char::is_whitespace` documents), written out
fn white_space_spec(c: u32) -> bool {
    (c >= 0x09 && c <= 0x0D) || c == 0x20 || c == 0x85 || c == 0xA0 || c == 0x1680 || (c >= 0x2000 && c <= 0x200A) || c == 0x2028 || c == 0x2029 || c == 0x202F || c == 0x205F || c == 0x3000
}

/// Character classes of `char` against their definitions, and agreement of the `u8` classes with the
/// `char` classes on ASCII.
pub fn h_char_classes() {
    let c = ch::any_char();
    let radix = ch::any_u32();
    ch::assume(radix >= 2 && radix <= 36);
    vassert!(Char::is_inline_whitespace(&c) == (c == ' ' || c == '\t'), "C14/char.inline-whitespace-is-space-or-tab");
    vassert!(Char::is_newline(&c) == newline_spec(c as u32), "C14/char.newline-is-one-of-the-documented-terminators");
    vassert!(Char::is_whitespace(&c) == white_space_spec(c as u32), "C14/char.whitespace-is-the-unicode-white-space-class");
    vcover!(c as u32 == 0x2003, "char: em space");
    vassert!(Char::is_digit(&c, radix) == digit_spec(c as u32, radix), "C14/char.digit-of-radix-r");
    vassert!(Char::to_ascii(&c) == if (c as u32) < 128 { Some(c as u8) } else { None }, "C14/char.to_ascii");
    vassert!(<char as Char>::digit_zero() == '0', "C14/char.digit-zero");
    vcover!(Char::is_digit(&c, radix) && (c as u32) > '9' as u32, "char: letter digit");
    let b = ch::any_u8();
    if b < 128 {
        let bc = b as char;
        vcover!(b == 0x0B, "u8: vertical tab");
        vassert!(Char::is_inline_whitespace(&b) == Char::is_inline_whitespace(&bc), "C14/u8.inline-whitespace-agrees-with-char-on-ascii");
        vassert!(Char::is_whitespace(&b) == Char::is_whitespace(&bc), "C14/u8.whitespace-agrees-with-char-on-ascii");
        vassert!(Char::is_newline(&b) == Char::is_newline(&bc), "C14/u8.newline-agrees-with-char-on-ascii");
        vassert!(Char::is_digit(&b, radix) == Char::is_digit(&bc, radix), "C14/u8.digit-agrees-with-char-on-ascii");
        vassert!(Char::to_ascii(&b) == Char::to_ascii(&bc), "C14/u8.to_ascii-agrees-with-char-on-ascii");
        vassert!(<u8 as Char>::digit_zero() == b'0', "C14/u8.digit-zero");
    }
}
/// ASCII identifier classes through the unicode tables: XID_Start|_ and XID_Continue restricted to
/// ASCII are [A-Za-z_] and [A-Za-z0-9_].
pub fn h_ident_classes() {
    let b = ch::any_u8();
    ch::assume(b < 128);
    let c = b as char;
    let alpha = (b >= b'a' && b <= b'z') || (b >= b'A' && b <= b'Z');
    let digit = b >= b'0' && b <= b'9';
    vcover!(alpha, "ident: letter");
    vassert!(Char::is_ident_start(&c) == (alpha || b == b'_'), "C14/char.ascii-ident-start-is-letter-or-underscore");
    vassert!(Char::is_ident_continue(&c) == (alpha || digit || b == b'_'), "C14/char.ascii-ident-continue-is-letter-digit-or-underscore");
    vassert!(Char::is_ident_start(&b) == Char::is_ident_start(&c) && Char::is_ident_continue(&b) == Char::is_ident_continue(&c), "C14/u8.ident-classes-agree-with-char-on-ascii");
}

/// newline(): exactly the documented terminators, CRLF as one; loop-free, unbounded input.
pub fn h_newline<M: VMode>() {
    run::<char, VS, (), _>(|inp, s0| {
        let r = text::newline::<SymIn<char>, X<VS>>().gov::<M>(inp);
        let s = snap(inp);
        let t0 = if s0.pos < s0.len { Some(inp.cache.tok_at(s0.pos)) } else { None };
        let t1 = if s0.pos < s0.len && 1 < s0.len - s0.pos { Some(inp.cache.tok_at(s0.pos + 1)) } else { None };
        let accept = t0.map(|c| newline_spec(c as u32)).unwrap_or(false);
        vassert!(r.is_ok() == accept, "C14/newline.accepts-exactly-the-documented-line-terminators");
        if accept {
            let crlf = t0 == Some('\r') && t1 == Some('\n');
            vcover!(crlf, "newline: CRLF");
            vcover!(t0 == Some('\u{2028}'), "newline: line separator");
            vassert!(s.pos == s0.pos + if crlf { 2 } else { 1 }, "C14/newline.crlf-is-one-terminator-otherwise-one-char");
            vassert!(s.believed == s.pos, "C18/newline.inspector-at-position");
        } else {
            vcover!(t0.is_some(), "newline: other char");
            vassert!(s.alt.is_some(), "C20/newline.failure-leaves-pending-error");
        }
        vassert!(s.nsec == s0.nsec, "C05/newline.emits-nothing");
    });
}

/// Reference recognisers over the (at most three) tokens left in the input.
fn toks3<T: SymTok>(inp: &mut IR<'_, T, VS>, s0: &S0) -> [Option<T>; 3] {
    let mut t = [None; 3];
    let mut k = 0;
    while k < 3 {
        if s0.pos < s0.len && k < s0.len - s0.pos {
            t[k] = Some(inp.cache.tok_at(s0.pos + k));
        }
        k += 1;
    }
    t
}
/// longest prefix of `t` whose elements all satisfy `p`
fn run_len<T: Copy>(t: &[Option<T>; 3], from: usize, p: impl Fn(T) -> bool) -> usize {
    let mut n = 0;
    let mut live = true;
    let mut k = 0;
    while k < 3 {
        if k >= from && live {
            match t[k] {
                Some(c) if p(c) => n += 1,
                _ => live = false,
            }
        }
        k += 1;
    }
    n
}
macro_rules! text_out {
    ($name:literal, $r:expr, $s:expr, $s0:expr, $want:expr) => {{
        let want: Option<usize> = $want;
        vassert!($r.is_ok() == want.is_some(), concat!("C14/", $name, ".accepts-exactly-its-documented-language"));
        if let Some(n) = want {
            vassert!($s.pos == $s0.pos + n && $s.believed == $s.pos, concat!("C14/", $name, ".consumes-exactly-the-longest-match"));
            vassert!(ok_with::<M, _>(&$r, SymSlice { start: $s0.pos, end: $s0.pos + n }), concat!("C14/", $name, ".returns-the-matched-slice-of-the-input"));
        } else {
            vassert!($s.alt.is_some(), concat!("C20/", $name, ".failure-leaves-pending-error"));
        }
        vassert!($s.nsec == $s0.nsec, concat!("C05/", $name, ".emits-nothing"));
    }};
}
pub fn h_int<M: VMode, T: SymTok + Char>() {
    run::<T, VS, (), _>(|inp, s0| {
        ch::assume(s0.len - s0.pos <= 3);
        let radix = ch::any_u32();
        ch::assume(radix >= 2 && radix <= 36);
        let r = text::int::<SymIn<T>, X<VS>>(radix).gov::<M>(inp);
        let s = snap(inp);
        let t = toks3(inp, &s0);
        let dig = |c: T| digit_spec(c.code(), radix);
        let want = match t[0] {
            Some(c) if dig(c) && c.code() == '0' as u32 => Some(1), // no superfluous leading zero
            Some(c) if dig(c) => Some(1 + run_len(&t, 1, dig)),
            _ => None,
        };
        vcover!(want == Some(3), "int: three digits");
        vcover!(want == Some(1) && t[1].map(dig).unwrap_or(false), "int: zero followed by a digit");
        text_out!("int", r, s, s0, want);
    });
}
pub fn h_digits<M: VMode, T: SymTok + Char>() {
    run::<T, VS, (), _>(|inp, s0| {
        ch::assume(s0.len - s0.pos <= 3);
        let radix = ch::any_u32();
        ch::assume(radix >= 2 && radix <= 36);
        let r = text::digits::<SymIn<T>, X<VS>>(radix).to_slice().gov::<M>(inp);
        let s = snap(inp);
        let t = toks3(inp, &s0);
        let n = run_len(&t, 0, |c: T| digit_spec(c.code(), radix));
        vcover!(n == 3, "digits: three digits");
        text_out!("digits", r, s, s0, if n >= 1 { Some(n) } else { None });
    });
}
pub fn h_whitespace<M: VMode, T: SymTok + Char, const INLINE: bool>() {
    run::<T, VS, (), _>(|inp, s0| {
        ch::assume(s0.len - s0.pos <= 3);
        let r = if INLINE { text::inline_whitespace::<SymIn<T>, X<VS>>().to_slice().gov::<M>(inp) } else { text::whitespace::<SymIn<T>, X<VS>>().to_slice().gov::<M>(inp) };
        let s = snap(inp);
        let t = toks3(inp, &s0);
        // the documented class, written over code points so that u8 and char inputs share it
        let ws = |c: T| {
            let x = c.code();
            // byte inputs: the statement is about ASCII text
            ch::assume(!T::BYTE || x < 128);
            if INLINE {
                x == 0x20 || x == 0x09
            } else if x < 128 {
                x == 0x20 || (x >= 0x09 && x <= 0x0D)
            } else {
                char::from_u32(x).map(|ch| ch.is_whitespace()).unwrap_or(false)
            }
        };
        let n = run_len(&t, 0, ws);
        vcover!(n == 2, "whitespace: run of two");
        text_out!("whitespace", r, s, s0, Some(n));
    });
}
pub fn h_ascii_ident<M: VMode, T: SymTok + Char>() {
    run::<T, VS, (), _>(|inp, s0| {
        ch::assume(s0.len - s0.pos <= 3);
        let r = text::ascii::ident::<SymIn<T>, X<VS>>().gov::<M>(inp);
        let s = snap(inp);
        let t = toks3(inp, &s0);
        let alpha = |x: u32| (x >= 'a' as u32 && x <= 'z' as u32) || (x >= 'A' as u32 && x <= 'Z' as u32) || x == '_' as u32;
        let cont = |c: T| alpha(c.code()) || (c.code() >= '0' as u32 && c.code() <= '9' as u32);
        let want = match t[0] {
            Some(c) if alpha(c.code()) => Some(1 + run_len(&t, 1, cont)),
            _ => None,
        };
        vcover!(want == Some(3), "ident: three chars");
        text_out!("ascii_ident", r, s, s0, want);
    });
}
/// keyword(k): the comparison against k sees the whole identifier (so k is never matched as a prefix
/// of a longer identifier) and the parser accepts iff that comparison holds.
pub struct Kw {
    pub seen: *mut SymSlice,
    pub verdict: bool,
}
impl Clone for Kw {
    fn clone(&self) -> Self {
        Kw { seen: self.seen, verdict: self.verdict }
    }
}
impl PartialEq<SymSlice> for Kw {
    fn eq(&self, s: &SymSlice) -> bool {
        unsafe { *self.seen = *s };
        self.verdict
    }
}
pub fn h_ascii_keyword<M: VMode>() {
    run::<char, VS, (), _>(|inp, s0| {
        ch::assume(s0.len - s0.pos <= 3);
        let mut seen = SymSlice { start: usize::MAX, end: usize::MAX };
        let verdict = ch::any_bool();
        let kw = Kw { seen: &mut seen, verdict };
        let r = text::ascii::keyword::<SymIn<char>, Kw, X<VS>>(kw).gov::<M>(inp);
        let s = snap(inp);
        let t = toks3(inp, &s0);
        let alpha = |x: u32| (x >= 'a' as u32 && x <= 'z' as u32) || (x >= 'A' as u32 && x <= 'Z' as u32) || x == '_' as u32;
        let cont = |c: char| alpha(c as u32) || (c as u32 >= '0' as u32 && c as u32 <= '9' as u32);
        let ident = match t[0] {
            Some(c) if alpha(c as u32) => Some(1 + run_len(&t, 1, cont)),
            _ => None,
        };
        match ident {
            None => vassert!(r.is_err() && seen.start == usize::MAX, "C14/keyword.not-an-identifier-is-rejected"),
            Some(n) => {
                vcover!(n == 3 && verdict, "keyword: three-char identifier equals the keyword");
                vassert!(seen == SymSlice { start: s0.pos, end: s0.pos + n }, "C14/keyword.compared-against-the-whole-identifier-never-a-prefix");
                vassert!(r.is_ok() == verdict, "C14/keyword.accepts-iff-the-identifier-is-exactly-the-keyword");
                if verdict {
                    vassert!(s.pos == s0.pos + n && ok_with::<M, _>(&r, SymSlice { start: s0.pos, end: s0.pos + n }), "C14/keyword.consumes-and-returns-the-identifier");
                }
            }
        }
    });
}
/// padded(): skips whitespace around the inner parser and nothing else (stub inner parser; at most
/// two tokens left before it, bounded trailing run).
pub fn h_padded<M: VMode>() {
    run::<u8, VS, (), _>(|inp, s0| {
        ch::assume(s0.len - s0.pos <= 2);
        let r = anyp::<SymIn<u8>, X<VS>>(0).padded().gov::<M>(inp);
        let s = snap(inp);
        let a = lg(inp, 0);
        let t0 = if s0.pos < s0.len { Some(inp.cache.tok_at(s0.pos)) } else { None };
        let t1 = if s0.pos < s0.len && 1 < s0.len - s0.pos { Some(inp.cache.tok_at(s0.pos + 1)) } else { None };
        let ws = |c: u8| c == 0x20 || (c >= 0x09 && c <= 0x0D);
        let lead = match (t0, t1) {
            (Some(x), Some(y)) if ws(x) && ws(y) => 2,
            (Some(x), _) if ws(x) => 1,
            _ => 0,
        };
        vcover!(lead == 2, "padded: two leading whitespace");
        vassert!(a.called && a.entry_pos == s0.pos + lead && a.entry_believed == a.entry_pos, "C14/padded.inner-parser-starts-after-the-leading-whitespace-only");
        vassert!(r.is_ok() == a.ok, "C14/padded.accepts-iff-the-inner-parser-does");
        if a.ok {
            vassert!(ok_with::<M, _>(&r, a.out), "C14/padded.output-of-the-inner-parser");
            vassert!(s.pos >= a.exit_pos && s.believed == s.pos, "C14/padded.only-skips-forward-after-the-inner-parser");
            if a.exit_pos >= s0.pos + lead && a.exit_pos < s0.len && a.exit_pos - s0.pos < 2 {
                // a token after the inner match that we know: it is skipped iff it is whitespace
                let nxt = inp.cache.tok_at(a.exit_pos);
                if !ws(nxt) {
                    vcover!(true, "padded: non-whitespace after the inner match");
                    vassert!(s.pos == a.exit_pos, "C14/padded.skips-surrounding-whitespace-only");
                }
            }
        }
    });
}

harnesses! {
    char_classes = h_char_classes;
    ident_classes = h_ident_classes;
    newline_emit = h_newline::<Emit>;
    newline_check = h_newline::<Check>;
    #[kani::unwind(5)]
    int_char_emit_b3 = h_int::<Emit, char>;
    #[kani::unwind(5)]
    int_u8_emit_b3 = h_int::<Emit, u8>;
    #[kani::unwind(5)]
    int_char_check_b3 = h_int::<Check, char>;
    #[kani::unwind(5)]
    digits_u8_emit_b3 = h_digits::<Emit, u8>;
    #[kani::unwind(5)]
    whitespace_char_emit_b3 = h_whitespace::<Emit, char, false>;
    #[kani::unwind(5)]
    whitespace_u8_emit_b3 = h_whitespace::<Emit, u8, false>;
    #[kani::unwind(5)]
    inline_whitespace_u8_emit_b3 = h_whitespace::<Emit, u8, true>;
    #[kani::unwind(5)]
    ascii_ident_char_emit_b3 = h_ascii_ident::<Emit, char>;
    #[kani::unwind(5)]
    ascii_ident_u8_emit_b3 = h_ascii_ident::<Emit, u8>;
    #[kani::unwind(5)]
    ascii_keyword_emit_b3 = h_ascii_keyword::<Emit>;
    #[kani::unwind(5)]
    padded_emit_b2 = h_padded::<Emit>;
    #[kani::unwind(5)]
    padded_check_b2 = h_padded::<Check>;
}
