// Tuple arities beyond those of h_comb2.rs: `choice` and `group` of FOUR parsers against the same
// n-ary specifications (the tuple impls of all arities 1..26 are expansions of one macro body; 1, 2, 3
// and 4 are under contract, the rest by uniformity of the macro).

use super::fw::*;
use super::h_comb::VEr;
use super::h_comb2::{choice_spec, seq_spec};
use crate::prelude::*;
use crate::private::{Check, Emit, Mode};
use crate::Parser;

pub fn h_choice4<M: VMode, Er: VEr>() {
    run::<u8, Er, (), _>(|inp, s0| {
        let anyp = |k| anyp::<SymIn<u8>, X<Er>>(k);
        let r = choice((anyp(0), anyp(1), anyp(2), anyp(3))).gov::<M>(inp);
        let s = snap(inp);
        let (a, b, c, d) = (lg(inp, 0), lg(inp, 1), lg(inp, 2), lg(inp, 3));
        let (v, chosen) = choice_spec(&s0, &s, &[(0, a), (1, b), (2, c), (3, d)], r.is_ok(), Er::ZST);
        vassert!(v[0], "C01/choice4.alternative-tried-iff-all-earlier-failed-never-revisited");
        vassert!(v[1], "C01/choice4.every-alternative-starts-at-entry-position");
        vassert!(v[2], "C05/choice4.abandoned-alternatives-leave-no-emissions");
        vassert!(v[3], "C18/choice4.inspector-rewound-before-each-alternative");
        vassert!(v[4], "C01/choice4.succeeds-iff-some-alternative-succeeds");
        vassert!(v[5], "C01/choice4.consumes-what-chosen-alternative-consumed");
        vassert!(v[6], "C05/choice4.kept-alternative-emissions-exact");
        vassert!(v[7], "C20/choice4.failure-leaves-pending-error-and-earlier-emissions");
        let out = match chosen {
            Some(0) => a.out,
            Some(1) => b.out,
            Some(2) => c.out,
            _ => d.out,
        };
        if chosen.is_some() {
            vassert!(ok_with::<M, _>(&r, out), "C01/choice4.output-of-first-succeeding-alternative");
        }
        vcover!(chosen == Some(3), "choice4: fourth alternative chosen");
        vcover!(chosen.is_none(), "choice4: all fail");
        if !Er::ZST {
            vassert!(Offers::of(&s0, &[&a, &b, &c, &d]).matches(&s), "C06/choice4.pending-error-is-furthest-offer");
        }
    });
}
pub fn h_group4<M: VMode, Er: VEr>() {
    run::<u8, Er, (), _>(|inp, s0| {
        let anyp = |k| anyp::<SymIn<u8>, X<Er>>(k);
        let r = group((anyp(0), anyp(1), anyp(2), anyp(3))).gov::<M>(inp);
        let s = snap(inp);
        let (a, b, c, d) = (lg(inp, 0), lg(inp, 1), lg(inp, 2), lg(inp, 3));
        let v = seq_spec(&s0, &s, &[(0, a), (1, b), (2, c), (3, d)], r.is_ok(), Er::ZST);
        vassert!(v[0], "C01/group4.first-part-runs-once-from-entry");
        vassert!(v[1], "C01/group4.each-part-runs-where-the-previous-stopped");
        vassert!(v[2], "C01/group4.nothing-runs-after-first-failure");
        vassert!(v[3], "C01/group4.succeeds-iff-every-part-succeeds");
        vassert!(v[4], "C01/group4.ends-where-last-part-stopped");
        vassert!(v[5], "C05/group4.emissions-of-all-parts-in-order");
        vassert!(v[6], "C20/group4.failure-leaves-pending-error");
        vassert!(v[7], "C05/group4.failure-keeps-earlier-emissions");
        if a.ok && b.ok && c.ok && d.ok {
            vcover!(true, "group4: all succeed");
            vassert!(ok_with::<M, _>(&r, (a.out, b.out, c.out, d.out)), "C01/group4.outputs-in-order");
        }
        vcover!(a.ok && b.ok && c.ok && !d.ok, "group4: fourth fails");
        if !Er::ZST {
            vassert!(Offers::of(&s0, &[&a, &b, &c, &d]).matches(&s), "C06/group4.pending-error-is-furthest-offer");
        }
    });
}

harnesses! {
    choice4_emit = h_choice4::<Emit, VS>;
    choice4_check = h_choice4::<Check, VS>;
    group4_emit = h_group4::<Emit, VS>;
    group4_check = h_group4::<Check, VS>;
}
