// C06: `Rich::merge` (the equal-position rule of `add_alt_err`, used when a ready-made error - try_map,
// custom, a replayed or re-offered error - meets the pending one) for the cases with a user-supplied
// (custom) reason on at least one side. From the statement: "a user-supplied error (try_map, custom) at that
// position is preserved", "Cheap, Simple and Rich report the same span for the same grammar and input" -
// so the merged error keeps the span of the pending error, as `Cheap::merge` / `Simple::merge` do.
// (Two expected/found reasons are merged by `flat_merge`'s list loop, which exhausts the solver's memory;
// its twin on the `add_alt` path, `merge_expected_found`, is under contract in h_err.rs.)
// Bounded: one expected pattern on the expected/found side.

use super::fw::*;
use crate::error::{Cheap, Error, LabelError, Rich, RichReason, Simple};
use crate::span::SimpleSpan;
use crate::util::MaybeRef;
use crate::DefaultExpected;

type In = SymIn<u8>;
type Sp = SimpleSpan<usize>;
type Exp = DefaultExpected<'static, u8>;
type R = Rich<'static, u8, Sp>;

fn any_span() -> Sp {
    let a = ch::any_usize();
    let b = ch::any_usize();
    ch::assume(a <= b);
    (a..b).into()
}
fn any_exp() -> Exp {
    match ch::below(3) {
        0 => DefaultExpected::Any,
        1 => DefaultExpected::EndOfInput,
        2 => DefaultExpected::SomethingElse,
        _ => DefaultExpected::Token(MaybeRef::Val(ch::any_u8())),
    }
}
fn any_found() -> Option<MaybeRef<'static, u8>> {
    if ch::any_bool() {
        Some(MaybeRef::Val(ch::any_u8()))
    } else {
        None
    }
}
fn is_custom(e: &R) -> bool {
    matches!(e.reason(), RichReason::Custom(_))
}
/// `KIND`: 0 = pending built-in failure meets a user error, 1 = pending user error meets a built-in
/// failure, 2 = two user errors.
pub fn h_err_rich_merge_custom<const KIND: usize>() {
    let (sp1, sp2) = (any_span(), any_span());
    let a: R = if KIND == 0 { <R as LabelError<'static, In, Exp>>::expected_found([any_exp()], any_found(), sp1) } else { Rich::custom(sp1, alloc::string::String::new()) };
    let b: R = if KIND == 1 { <R as LabelError<'static, In, Exp>>::expected_found([any_exp()], any_found(), sp2) } else { Rich::custom(sp2, alloc::string::String::new()) };
    let m = <R as Error<'static, In>>::merge(a, b);
    vcover!(sp1 != sp2, "rich merge: the two errors have different spans");
    vassert!(is_custom(&m), "C06/rich_merge.user-supplied-error-is-preserved");
    vassert!(*m.span() == sp1, "C06/rich_merge.keeps-the-span-of-the-pending-error");
    // the other two error types, same operation, same spans
    let ca = <Cheap<Sp> as LabelError<'static, In, Exp>>::expected_found([any_exp()], None, sp1);
    let cb = <Cheap<Sp> as LabelError<'static, In, Exp>>::expected_found([any_exp()], None, sp2);
    let cm = <Cheap<Sp> as Error<'static, In>>::merge(ca, cb);
    let sa = <Simple<'static, u8, Sp> as LabelError<'static, In, Exp>>::expected_found([any_exp()], None, sp1);
    let sb = <Simple<'static, u8, Sp> as LabelError<'static, In, Exp>>::expected_found([any_exp()], None, sp2);
    let sm = <Simple<'static, u8, Sp> as Error<'static, In>>::merge(sa, sb);
    vassert!(*m.span() == *cm.span() && *m.span() == *sm.span(), "C06/rich_merge.same-span-as-cheap-and-simple-after-an-equal-position-merge");
}

harnesses! {
    err_rich_merge_builtin_with_custom_b1 = h_err_rich_merge_custom::<0>;
    err_rich_merge_custom_with_builtin_b1 = h_err_rich_merge_custom::<1>;
    err_rich_merge_custom_with_custom_b1 = h_err_rich_merge_custom::<2>;
}
