// Contracts of the `InputRef` primitives every combinator is built from: checkpoints (save / rewind /
// rewind_input), emission, the pending-error priority rule (add_alt / add_alt_err, incl. the zero-sized
// error fast paths), token access (next / peek) with the inspector hooks, and take_alt / parse / check.

use super::fw::*;
use super::h_comb::VEr;
use crate::error::Error;
use crate::prelude::*;
use crate::private::{Check, Emit, Located, Mode};
use crate::DefaultExpected;

/// rewind(save()) restores position, emitted errors and inspector exactly, whatever happened in
/// between (a contract stub that may succeed or fail), and never touches the pending error.
pub fn h_save_rewind<Er: VEr, const INPUT_ONLY: bool>() {
    run::<u8, Er, (), _>(|inp, s0| {
        let saves0 = inp.state.saves;
        let cp = inp.save();
        vassert!(cp.cursor().inner == s0.pos && cp.err_count == s0.nsec && *cp.inspector() == s0.pos, "C05/save.checkpoint-pairs-position-emitted-count-and-inspector-snapshot");
        let s1 = snap(inp);
        vassert!(s1 == snap(inp) && s1.pos == s0.pos && s1.nsec == s0.nsec && s1.alt.map(|a| a.0) == s0.alt.map(|a| a.0), "C05/save.changes-nothing");
        let _ = saves0;
        let _ = anyp::<SymIn<u8>, X<Er>>(0).run(inp, true);
        let mid = snap(inp);
        let a = lg(inp, 0);
        vcover!(a.emitted == 2 && mid.pos > s0.pos, "save/rewind: child consumed and emitted");
        if INPUT_ONLY {
            inp.rewind_input(cp);
        } else {
            inp.rewind(cp);
        }
        let s = snap(inp);
        vassert!(s.pos == s0.pos, "C05/rewind.restores-position");
        vassert!(s.believed == s0.pos, "C18/rewind.restores-inspector-to-the-checkpoint-snapshot");
        if INPUT_ONLY {
            vassert!(s.nsec == mid.nsec && SecSpec::pre(&s0).child(0, &a).holds(&s, Er::ZST), "C05/rewind_input.keeps-emitted-errors");
        } else {
            vassert!(SecSpec::pre(&s0).holds(&s, Er::ZST), "C05/rewind.drops-exactly-the-errors-emitted-since-the-checkpoint");
        }
        vassert!(s.alt == mid.alt && s.alt_merges == mid.alt_merges, "C06/rewind.pending-error-survives-rewinds");
    });
}

pub fn h_emit<Er: VEr>() {
    run::<u8, Er, (), _>(|inp, s0| {
        inp.emit(None, Er::mk(300, 0, 0));
        let s = snap(inp);
        vcover!(true, "emit: ran");
        vassert!(SecSpec::pre(&s0).ids(300, 1).holds(&s, Er::ZST), "C05/emit.appends-exactly-one-error-after-the-earlier-ones");
        vassert!(s.pos == s0.pos && s.alt == s0.alt && s.believed == s.pos, "C05/emit.changes-nothing-else");
        let at = inp.errors.secondary[s0.nsec].pos;
        vassert!(at == s0.pos, "C05/emit.error-recorded-at-current-position");
    });
}

/// add_alt_err implements the priority rule: later replaces, equal merges, earlier is kept.
pub fn h_add_alt_err() {
    run::<u8, VErr, (), _>(|inp, s0| {
        let at = ch::below(s0.len);
        inp.add_alt_err(&at, VErr::mk(77, at, at));
        let s = snap(inp);
        let alt = alt_full(inp);
        vassert!(s.pos == s0.pos && s.nsec == s0.nsec && s.believed == s.pos, "C06/add_alt_err.touches-only-the-pending-error");
        match (s0.alt, alt) {
            (None, Some((p, e))) => {
                vcover!(true, "add_alt_err: first failure");
                vassert!(p == at && e.id == 77 && e.merges == 0, "C06/add_alt_err.first-failure-becomes-pending");
            }
            (Some((ap, aid)), Some((p, e))) => {
                if ap > at {
                    vcover!(true, "add_alt_err: earlier failure ignored");
                    vassert!(p == ap && e.id == aid && e.merges == 0, "C06/add_alt_err.earlier-failure-never-replaces-a-further-one");
                } else if ap == at {
                    vcover!(true, "add_alt_err: equal position merged");
                    vassert!(p == ap && e.merges == 1 && (e.id == aid && e.merged_id == 77 || e.id == 77 && e.merged_id == aid), "C06/add_alt_err.equal-position-failures-are-merged");
                } else {
                    vcover!(true, "add_alt_err: further failure replaces");
                    vassert!(p == at && e.id == 77 && e.merges == 0, "C06/add_alt_err.further-failure-replaces-the-pending-one");
                }
            }
            _ => vassert!(false, "C20/add_alt_err.leaves-a-pending-error"),
        }
    });
}

/// add_alt: same rule at the current position, building the error from expected/found/span.
pub fn h_add_alt() {
    run::<u8, VErr, (), _>(|inp, s0| {
        let found = if ch::any_bool() { Some(ch::any_u8()) } else { None };
        let (a, b) = (ch::any_usize(), ch::any_usize());
        let span: SimpleSpan<usize> = (a..b).into();
        inp.add_alt([DefaultExpected::<u8>::Any], found.map(|f| f.into()), span);
        let s = snap(inp);
        let alt = alt_full(inp);
        let at = s0.pos;
        vassert!(s.pos == s0.pos && s.nsec == s0.nsec && s.believed == s.pos, "C06/add_alt.touches-only-the-pending-error");
        let fresh = |e: &VErr| e.id == 0 && e.start == a && e.end == b && e.found == found.map(|f| f as u32);
        match (s0.alt, alt) {
            (None, Some((p, e))) => {
                vassert!(p == at && fresh(&e) && e.merges == 0, "C06/add_alt.first-failure-becomes-pending-with-given-span-and-found");
            }
            (Some((ap, aid)), Some((p, e))) => {
                if ap > at {
                    vassert!(p == ap && e.id == aid && e.merges == 0 && e.replaced == 0, "C06/add_alt.earlier-failure-never-replaces-a-further-one");
                } else if ap == at {
                    vcover!(true, "add_alt: equal position merged");
                    vassert!(p == ap && e.merges == 1 && (e.id == aid || fresh(&e)), "C06/add_alt.equal-position-failures-are-merged");
                } else {
                    vcover!(true, "add_alt: further failure replaces");
                    vassert!(p == at && fresh(&e) && e.merges == 0, "C06/add_alt.further-failure-replaces-the-pending-one-with-given-span-and-found");
                }
            }
            _ => vassert!(false, "C20/add_alt.leaves-a-pending-error"),
        }
    });
}

/// Zero-sized errors carry no information: any recorded failure is as good as another, but a failure
/// must still leave a pending error behind (relied on by every "can't fail" unwrap).
pub fn h_add_alt_zst() {
    run::<u8, VZ, (), _>(|inp, s0| {
        let span: SimpleSpan<usize> = (s0.pos..s0.pos).into();
        inp.add_alt([DefaultExpected::<u8>::Any], None, span);
        let s = snap(inp);
        vcover!(true, "add_alt zst: ran");
        vassert!(s.alt.is_some(), "C20/add_alt.zero-sized-error-still-leaves-a-pending-error");
        vassert!(s.pos == s0.pos && s.nsec == s0.nsec, "C06/add_alt.touches-only-the-pending-error");
    });
}

/// The same for a failure reported as a ready-made error value (`try_map`, `custom`, re-offers).
pub fn h_add_alt_err_zst() {
    run::<u8, VZ, (), _>(|inp, s0| {
        let at = ch::below(s0.len);
        inp.add_alt_err(&at, VZ);
        let s = snap(inp);
        vcover!(s0.alt.is_none(), "add_alt_err zst: nothing pending before");
        vassert!(s.alt.is_some(), "C20/add_alt_err.zero-sized-error-still-leaves-a-pending-error");
        vassert!(s.pos == s0.pos && s.nsec == s0.nsec && s.believed == s.pos, "C06/add_alt_err.touches-only-the-pending-error");
    });
}

/// `skip()`: consumes exactly one token like `next()` (inspector notified), nothing at the end of input.
pub fn h_skip() {
    run::<u8, VErr, (), _>(|inp, s0| {
        let tokens0 = inp.state.tokens;
        inp.skip();
        let s = snap(inp);
        vassert!(s.nsec == s0.nsec && s.alt == s0.alt, "C05/skip.touches-neither-errors-nor-pending-error");
        if s0.pos < s0.len {
            vcover!(true, "skip: token");
            vassert!(s.pos == s0.pos + 1, "C10/skip.advances-by-exactly-one-token");
            vassert!(s.believed == s.pos && inp.state.tokens == tokens0.wrapping_add(1), "C18/skip.inspector-notified-once-per-consumed-token");
        } else {
            vcover!(true, "skip: end of input");
            vassert!(s.pos == s0.pos && s.believed == s0.pos && inp.state.tokens == tokens0, "C18/skip.end-of-input-moves-nothing");
        }
    });
}

/// Token access: next* yields the token at the position and advances by one, or None at the end
/// without moving; the inspector's on_token runs iff a token is consumed; peek* changes nothing.
pub fn h_next<const KIND: usize>() {
    run::<u8, VErr, (), _>(|inp, s0| {
        let tokens0 = inp.state.tokens;
        let r: Option<u8> = match KIND {
            0 => inp.next_inner(),
            1 => inp.next_maybe_inner(),
            2 => inp.next(),
            3 => inp.next_maybe().map(|t| *t),
            4 => inp.peek(),
            _ => inp.peek_maybe().map(|t| *t),
        };
        let s = snap(inp);
        let here = if s0.pos < s0.len { Some(inp.cache.tok_at(s0.pos)) } else { None };
        vassert!(r == here, "C10/next.yields-the-token-at-the-position-none-only-at-the-end");
        vassert!(s.nsec == s0.nsec && s.alt == s0.alt, "C05/next.touches-neither-errors-nor-pending-error");
        if KIND >= 4 {
            vcover!(r.is_some(), "peek: token");
            vassert!(s.pos == s0.pos && s.believed == s0.pos && inp.state.tokens == tokens0, "C18/peek.consumes-nothing-and-does-not-notify-the-inspector");
        } else if r.is_some() {
            vcover!(true, "next: token");
            vassert!(s.pos == s0.pos + 1, "C10/next.advances-by-exactly-one-token");
            vassert!(s.believed == s.pos && inp.state.tokens == tokens0.wrapping_add(1), "C18/next.inspector-notified-once-per-consumed-token");
        } else {
            vcover!(true, "next: end of input");
            vassert!(s.pos == s0.pos && s.believed == s0.pos && inp.state.tokens == tokens0, "C18/next.end-of-input-moves-nothing");
        }
    });
}

/// skip_while (bounded: at most 2 tokens remain).
pub fn h_skip_while() {
    run::<u8, VErr, (), _>(|inp, s0| {
        ch::assume(s0.len - s0.pos <= 2);
        let thr = ch::any_u8();
        inp.skip_while(|t| *t < thr);
        let s = snap(inp);
        let t0 = if s0.pos < s0.len { Some(inp.cache.tok_at(s0.pos)) } else { None };
        let t1 = if s0.pos < s0.len && 1 < s0.len - s0.pos { Some(inp.cache.tok_at(s0.pos + 1)) } else { None };
        let m0 = t0.map(|t| t < thr).unwrap_or(false);
        let m1 = t1.map(|t| t < thr).unwrap_or(false);
        let want = if !m0 { 0 } else if !m1 { 1 } else { 2 };
        vcover!(want == 2, "skip_while: two tokens skipped");
        vcover!(want == 1, "skip_while: stops at a non-matching token");
        vassert!(s.pos == s0.pos + want, "C14/skip_while.skips-exactly-the-longest-matching-run");
        vassert!(s.believed == s.pos, "C18/skip_while.inspector-notified-of-every-skipped-token");
        vassert!(s.nsec == s0.nsec && s.alt == s0.alt, "C05/skip_while.touches-neither-errors-nor-pending-error");
    });
}

/// InputRef::parse / check (used by `custom`): a failing parser's pending error is handed out.
pub fn h_inputref_parse<const CHECK: bool>() {
    run::<u8, VS, (), _>(|inp, s0| {
        let p = anyp::<SymIn<u8>, X<VS>>(0);
        let r: Result<Option<u16>, VS> = if CHECK { inp.check(p).map(|_| None) } else { inp.parse(p).map(Some) };
        let s = snap(inp);
        let a = lg(inp, 0);
        vassert!(r.is_ok() == a.ok, "C01/inputref_parse.succeeds-iff-the-parser-succeeds");
        match r {
            Ok(o) => {
                vcover!(true, "inputref.parse: ok");
                vassert!(o.map(|v| v == a.out).unwrap_or(true), "C01/inputref_parse.output-is-the-parser-output");
                vassert!(s.pos == a.exit_pos, "C01/inputref_parse.consumes-what-the-parser-consumed");
            }
            Err(_e) => {
                vcover!(true, "inputref.parse: err");
                vassert!(s.alt.is_none(), "C20/inputref_parse.failure-hands-out-the-pending-error");
            }
        }
        let _ = s0;
    });
}

harnesses! {
    save_rewind = h_save_rewind::<VS, false>;
    save_rewind_zst = h_save_rewind::<VZ, false>;
    save_rewind_input = h_save_rewind::<VS, true>;
    emit_one = h_emit::<VS>;
    add_alt_err_rule = h_add_alt_err;
    add_alt_rule = h_add_alt;
    add_alt_zst = h_add_alt_zst;
    add_alt_err_zst = h_add_alt_err_zst;
    skip_one = h_skip;
    next_inner = h_next::<0>;
    next_maybe_inner = h_next::<1>;
    next_pub = h_next::<2>;
    next_maybe_pub = h_next::<3>;
    peek_pub = h_next::<4>;
    peek_maybe_pub = h_next::<5>;
    #[kani::unwind(5)]
    skip_while_b2 = h_skip_while;
    inputref_parse = h_inputref_parse::<false>;
    inputref_check_check = h_inputref_parse::<true>;
}
