// Witness (public API only) for the recorded C07 finding on IterInput (same shape as Input::map, see
// c07_mapped_empty_span.rs): a sub-parser that consumed nothing, with a token still ahead, gets the span
// (start of the NEXT token)..(end of the PREVIOUS token) - here 5..1 - instead of an empty span between them.
use chumsky::input::IterInput;
use chumsky::prelude::*;

fn main() {
    let toks = vec![('a', SimpleSpan::from(0..1)), ('b', SimpleSpan::from(5..6))];
    let p = just::<_, _, extra::Err<Simple<char>>>('a').ignore_then(empty().to_span()).then_ignore(just('b'));
    let s: SimpleSpan = p.parse(IterInput::new(toks.into_iter(), SimpleSpan::from(9..9))).into_result().unwrap();
    println!("empty match between the tokens: {}..{}", s.start, s.end);
    if !(s.start == s.end && 1 <= s.start && s.start <= 5) {
        println!("DEFECT: an empty match does not get an empty span lying between its neighbours");
        std::process::exit(1);
    }
    println!("OK");
}
