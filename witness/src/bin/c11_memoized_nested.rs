// C11 (recorded finding, same root as c11_memoized_zero_sized): memoized() applied directly to a memoized
// parser. The inner parser of the outer Memoized is the inner Memoized, whose own inner parser lives at
// the same address (first field), so both layers compute the same memo key (position, address): the inner
// layer finds the outer layer's "in progress" mark, takes itself for a left-recursive re-entry and fails
// without running the parser. `p.memoized().memoized()` rejects everything.
use chumsky::prelude::*;
type E<'a> = extra::Err<Rich<'a, char>>;
fn main() {
    let m = just::<_, &str, E>('a').memoized().memoized().parse("a").into_result();
    let p = just::<_, &str, E>('a').parse("a").into_result();
    println!("memoized twice: {m:?}\nplain         : {p:?}");
    std::process::exit(if m.is_ok() == p.is_ok() { 0 } else { 1 });
}
