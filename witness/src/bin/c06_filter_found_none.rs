// Witness (public API only) for the recorded C06 finding: the error of a rejecting `filter` reports
// `found = None` ("end of input") although the rejected token is right there: C06 requires `found` to be the
// token at the start of the span, None only at the end of input.
use chumsky::prelude::*;

fn main() {
    let p = any::<&str, extra::Err<Rich<char>>>().filter(|c: &char| *c == 'a');
    let errs = p.parse("b").into_errors();
    let e = &errs[0];
    println!("any().filter(== 'a') on \"b\": span {:?}, found {:?}  ({})", e.span(), e.found(), e);
    if e.found().is_none() && e.span().start < 1 {
        println!("DEFECT: found = None although the failure is not at the end of input (the token 'b' is at the start of the span)");
        std::process::exit(1);
    }
    println!("OK");
}
