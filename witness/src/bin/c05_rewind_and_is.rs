// Witness (public API only) for the C05 defect repaired by the "fix:" commit:
// `rewind()` and `and_is()` dropped non-fatal errors emitted by the sub-parser whose output they keep.
use chumsky::prelude::*;

fn main() {
    let p = just::<_, &str, extra::Err<Rich<char>>>('a')
        .validate(|c, e, em| {
            em.emit(Rich::custom(e.span(), "validation failed"));
            c
        })
        .rewind()
        .then(just('a'));
    let r = p.parse("a");
    let n1 = r.errors().count();
    let q = just::<_, &str, extra::Err<Rich<char>>>('a')
        .validate(|c, e, em| {
            em.emit(Rich::custom(e.span(), "validation failed"));
            c
        })
        .and_is(any());
    let r2 = q.parse("a");
    let n2 = r2.errors().count();
    println!("rewind: output={:?} errors={}   and_is: output={:?} errors={}", r.output(), n1, r2.output(), n2);
    if n1 == 1 && n2 == 1 {
        println!("OK: emissions of the kept sub-parser are reported");
    } else {
        println!("DEFECT: emissions of the kept sub-parser were dropped");
        std::process::exit(1);
    }
}
