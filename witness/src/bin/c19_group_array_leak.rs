// Witness (public API only) for the C19 defect repaired by the "fix:" commit: `group([a, b, c])` leaked
// the outputs of the elements that had already succeeded when a later element failed.
use chumsky::prelude::*;
use std::cell::Cell;
use std::rc::Rc;

struct Tracked(Rc<Cell<i32>>);
impl Drop for Tracked {
    fn drop(&mut self) {
        self.0.set(self.0.get() - 1);
    }
}

fn main() {
    let live = Rc::new(Cell::new(0));
    {
        let l = live.clone();
        let item = just::<_, &str, extra::Err<Simple<char>>>('a').map(move |_| {
            l.set(l.get() + 1);
            Tracked(l.clone())
        });
        let p = group([item.clone(), item.clone(), item]);
        let r = p.parse("aab");
        assert!(!r.has_output());
    }
    println!("live values after a failed group([a, a, a]) on \"aab\": {}", live.get());
    if live.get() != 0 {
        println!("DEFECT: values produced before the failing element were leaked");
        std::process::exit(1);
    }
    println!("OK: every produced value was dropped");
}
