// Witness (public API only) for the C20 defect: with a zero-sized error type (`EmptyErr`, the default
// `extra::Default`), a failure reported through a user-supplied error value (`try_map`, `custom`) left NO
// pending primary error, because `InputRef::add_alt_err` returned early for zero-sized errors. Combinators
// that rely on "a failed parser always leaves an error" (`recover_with`, `map_err`) then panicked on their
// "can't fail" unwrap instead of reporting the failure through the error list.
use chumsky::error::EmptyErr;
use chumsky::prelude::*;
use std::panic::{catch_unwind, AssertUnwindSafe};

fn main() {
    let mut bad = 0;
    // 1. try_map rejection under recover_with
    let r = catch_unwind(AssertUnwindSafe(|| {
        let p = any::<&str, extra::Default>()
            .try_map(|c: char, _span| if c == 'a' { Ok(c) } else { Err(EmptyErr::default()) })
            .recover_with(via_parser(any().to('?')));
        let res = p.parse("b");
        (res.has_output(), res.errors().count())
    }));
    println!("try_map(reject).recover_with(..) on \"b\": {:?}", r.as_ref().map_err(|_| "PANIC"));
    if r.is_err() {
        bad += 1;
    }
    // 2. custom failure under map_err
    let r = catch_unwind(AssertUnwindSafe(|| {
        let p = custom::<_, &str, (), extra::Default>(|_inp| Err(EmptyErr::default())).map_err(|e: EmptyErr| e);
        let res = p.parse("");
        (res.has_output(), res.errors().count())
    }));
    println!("custom(fail).map_err(id) on \"\": {:?}", r.as_ref().map_err(|_| "PANIC"));
    if r.is_err() {
        bad += 1;
    }
    if bad > 0 {
        println!("DEFECT: a failing parser left no pending error with a zero-sized error type; the parse panicked instead of returning a ParseResult");
        std::process::exit(1);
    }
    println!("OK: failures with zero-sized errors are reported through the error list");
}
