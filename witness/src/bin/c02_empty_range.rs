// Witness (public API only) for the recorded C02 finding: with at_least > at_most no count lies in
// [at_least, at_most], yet repeated()/separated_by() accept at_most items instead of failing.
use chumsky::prelude::*;

fn main() {
    let p = just::<_, &str, extra::Err<Simple<char>>>('a').repeated().at_least(3).at_most(2).collect::<Vec<_>>().then_ignore(any().repeated());
    let r = p.parse("aa");
    let q = just::<_, &str, extra::Err<Simple<char>>>('a').separated_by(just(',')).at_least(3).at_most(2).collect::<Vec<_>>().then_ignore(any().repeated());
    let r2 = q.parse("a,a");
    println!("repeated: {:?}   separated_by: {:?}", r.output(), r2.output());
    if r.has_output() || r2.has_output() {
        println!("DEFECT: a count outside [at_least, at_most] was accepted (empty range at_least > at_most)");
        std::process::exit(1);
    }
    println!("OK: empty range rejects");
}
