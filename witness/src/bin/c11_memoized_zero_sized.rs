// C11 (recorded finding): two different zero-sized memoized parsers that live at the same address (the
// alternatives of `or`/`choice`, the parts of a sequence) share one memo key (position, address), so the
// second is taken for a repetition of the first: "b" is rejected although the plain grammar accepts it.
use chumsky::prelude::*;
type E<'a> = extra::Err<Rich<'a, char>>;
fn main() {
    let a = any::<&str, E>().filter(|c: &char| *c == 'a').memoized();
    let b = any::<&str, E>().filter(|c: &char| *c == 'b').memoized();
    let m = a.or(b).parse("b").into_result();
    let a = any::<&str, E>().filter(|c: &char| *c == 'a');
    let b = any::<&str, E>().filter(|c: &char| *c == 'b');
    let p = a.or(b).parse("b").into_result();
    println!("memoized: {m:?}\nplain   : {p:?}");
    std::process::exit(if m.is_ok() == p.is_ok() { 0 } else { 1 });
}
