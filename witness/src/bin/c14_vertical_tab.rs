// Witness (public API only) for the C14 defect repaired by the "fix:" commit: the byte-oriented text
// parsers did not treat the vertical tab (0x0B) as whitespace although the char-oriented ones do, so
// the same ASCII text parsed differently as &str and as &[u8].
use chumsky::prelude::*;

fn main() {
    let s = text::whitespace::<&str, extra::Err<Simple<char>>>().then_ignore(end()).parse("\x0B").has_output();
    let b = text::whitespace::<&[u8], extra::Err<Simple<u8>>>().then_ignore(end()).parse(b"\x0B".as_slice()).has_output();
    println!("whitespace() accepts \"\\x0B\": as &str {s}, as &[u8] {b}");
    if s != b {
        println!("DEFECT: &str and &[u8] disagree on ASCII text");
        std::process::exit(1);
    }
    println!("OK");
}
