// C11: memoized() must not change the errors reported.
//  (1) a failing memoized parser lost its error (the parse reported a placeholder "found end of input");
//  (2) a replayed (memo hit) failure was re-offered at the start of the attempt instead of where the
//      parser had failed, so it lost against / was not merged with other failures at that position.
// Prints the errors of the memoized and the plain grammar; exits 1 when they differ.
use chumsky::prelude::*;
type E<'a> = extra::Err<Rich<'a, char>>;

fn show(r: ParseResult<(), Rich<char>>) -> String {
    format!("{:?}", r.into_result())
}

fn grammar<'a>(memo: bool) -> impl Parser<'a, &'a str, (), E<'a>> {
    // the same parser value is used twice at the same position (shared through `boxed()`)
    let a = if memo {
        just::<_, &str, E>("xy").to(()).memoized().boxed()
    } else {
        just::<_, &str, E>("xy").to(()).boxed()
    };
    let fallback = choice((
        a.clone().then_ignore(just('?')),
        just('x').then_ignore(just('q')).to(()),
    ))
    .or_not()
    .to(());
    a.then_ignore(just('!'))
        .recover_with(via_parser(fallback))
        .then_ignore(end())
}

fn main() {
    let mut bad = false;
    // (1)
    let m = show(just::<_, &str, E>('a').to(()).memoized().parse("b"));
    let p = show(just::<_, &str, E>('a').to(()).parse("b"));
    println!("(1) memoized: {m}\n    plain   : {p}");
    bad |= m != p;
    // (2)
    let m = show(grammar(true).parse("xz"));
    let p = show(grammar(false).parse("xz"));
    println!("(2) memoized: {m}\n    plain   : {p}");
    bad |= m != p;
    std::process::exit(if bad { 1 } else { 0 });
}
