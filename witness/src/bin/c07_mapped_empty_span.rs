// Witness (public API only) for the recorded C07 finding: on an input whose tokens carry their own
// spans (Input::map), a sub-parser that consumed nothing gets a malformed span (start > end) or one
// covering input it did not consume, instead of an empty span between its neighbours.
use chumsky::input::Input;
use chumsky::prelude::*;

fn main() {
    // two tokens with spans 0..1 and 5..6, end of input at 9..9
    let toks = [('a', SimpleSpan::from(0..1)), ('b', SimpleSpan::from(5..6))];
    let empty_between = just::<_, _, extra::Err<Simple<char>>>('a').ignore_then(empty().to_span()).then_ignore(just('b'));
    let s1: SimpleSpan = empty_between.parse((&toks[..]).map(SimpleSpan::from(9..9), |(t, s)| (t, s))).into_result().unwrap();
    let empty_at_start = empty::<_, extra::Err<Simple<char>>>().to_span().then_ignore(just('a')).then_ignore(just('b'));
    let s2: SimpleSpan = empty_at_start.parse((&toks[..]).map(SimpleSpan::from(9..9), |(t, s)| (t, s))).into_result().unwrap();
    println!("empty match between the tokens: {}..{}   empty match at the start: {}..{}", s1.start, s1.end, s2.start, s2.end);
    let ok1 = s1.start == s1.end && 1 <= s1.start && s1.start <= 5;
    let ok2 = s2.start == s2.end && s2.start == 0;
    if !(ok1 && ok2) {
        println!("DEFECT: an empty match does not get an empty span lying between its neighbours");
        std::process::exit(1);
    }
    println!("OK");
}
