// Witness (public API only) for the C17/C06 defect repaired by the "fix:" commit: when the parser under
// `map_err` SUCCEEDED, the error pending from an earlier alternative was thrown away, so adding a
// `map_err(|e| e)` changed the reported error (lost expectations of the earlier alternative).
use chumsky::prelude::*;

fn expected_of(r: ParseResult<((), char), Rich<char>>) -> Vec<String> {
    let errs = r.into_errors();
    let mut v: Vec<String> = errs.last().map(|e| e.expected().map(|x| format!("{x:?}")).collect()).unwrap_or_default();
    v.sort();
    v
}

fn main() {
    // "ac": the first alternative fails at offset 1 expecting 'b'; the second matches "a"; then 'x' is expected at offset 1
    let plain = choice((just::<_, &str, extra::Err<Rich<char>>>("ab").ignored(), just("a").ignored())).then(just('x'));
    let decorated = choice((just::<_, &str, extra::Err<Rich<char>>>("ab").ignored(), just("a").map_err(|e: Rich<char>| e).ignored())).then(just('x'));
    let a = expected_of(plain.parse("ac"));
    let b = expected_of(decorated.parse("ac"));
    println!("undecorated expects {a:?}\nwith map_err(id) expects {b:?}");
    if a != b {
        println!("DEFECT: a span-preserving map_err changed the reported expectations");
        std::process::exit(1);
    }
    println!("OK: map_err(identity) is unobservable");
}
