// Witness (public API only) for the recorded C20 finding: `collect_exactly` fails WITHOUT leaving a pending
// error when the iteration ends early and the inner parser did not record why (here: `repeated()` stopping at
// its `at_most` bound, which returns "no more items" without trying another item). `recover_with` relies on
// "a failed parser always leaves an error" and panics on its "can't fail" unwrap instead of reporting.
use chumsky::prelude::*;
use std::panic::{catch_unwind, AssertUnwindSafe};

fn main() {
    let r = catch_unwind(AssertUnwindSafe(|| {
        let p = just::<_, &str, extra::Err<Rich<char>>>('a')
            .repeated()
            .at_most(2)
            .collect_exactly::<[char; 3]>()
            .map(|a| a.to_vec())
            .recover_with(via_parser(any().repeated().collect::<Vec<char>>()));
        let res = p.parse("aa");
        (res.has_output(), res.errors().count())
    }));
    println!("repeated().at_most(2).collect_exactly::<[_; 3]>().recover_with(..) on \"aa\": {:?}", r.as_ref().map_err(|_| "PANIC"));
    if r.is_err() {
        println!("DEFECT: collect_exactly failed without leaving a pending error; recover_with panicked instead of reporting the failure");
        std::process::exit(1);
    }
    println!("OK");
}
